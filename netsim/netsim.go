// Package netsim provides deterministic in-memory connections for the /verif
// harnesses: an unbounded byte-queue duplex net.Conn with scripted addresses,
// a synchronous relay hook (sees every write, may edit / insert / drop), close
// tracking, operation counting with a stall point, and quiescence detection
// (all registered parties blocked in Read with nothing in flight => the run is
// declared stuck and every conn is closed with ErrStuck).
package netsim

import (
	"errors"
	"io"
	"net"
	"sync"
	"time"
)

var ErrStuck = errors.New("netsim: all parties blocked, nothing in flight (stuck)")
var ErrClosed = errors.New("netsim: use of closed connection")

type Addr struct{ Net, S string }

func (a Addr) Network() string { return a.Net }
func (a Addr) String() string  { return a.S }

// World tracks the parties of one scenario for quiescence detection.
type World struct {
	mu      sync.Mutex
	cond    *sync.Cond
	parties int
	blocked int
	done    int
	stuck   bool
	eps     []*End
}

func NewWorld(parties int) *World {
	w := &World{parties: parties}
	w.cond = sync.NewCond(&w.mu)
	return w
}

// Done marks one party as finished (it will never write again).
func (w *World) Done() {
	w.mu.Lock()
	w.done++
	w.checkStuckLocked()
	w.mu.Unlock()
}

// Stuck reports whether the world was declared stuck.
func (w *World) Stuck() bool {
	w.mu.Lock()
	defer w.mu.Unlock()
	return w.stuck
}

func (w *World) checkStuckLocked() {
	if w.stuck || w.parties == 0 {
		return
	}
	if w.blocked > 0 && w.blocked+w.done >= w.parties {
		w.stuck = true
		for _, e := range w.eps {
			if !e.rclosed {
				e.rclosed = true
				e.rerr = ErrStuck
			}
		}
		w.cond.Broadcast()
	}
}

// End is one end of a duplex connection.
type End struct {
	ReadChunk int // > 0: Read returns at most this many bytes per call
	w         *World
	peer      *End
	q         []byte // bytes waiting to be read by this end
	rclosed   bool   // reading side terminated
	rerr      error
	closed    bool // Close() called on this end
	local     net.Addr
	remote    net.Addr

	// Hook, if set, is called (outside the world lock) with every write made
	// on this end; it returns the byte slices actually delivered to the peer.
	Hook func(data []byte) [][]byte

	// Wire records everything written on this end *after* the hook.
	Wire []byte
	// Sent records everything written on this end *before* the hook.
	Sent []byte
	// Got records everything this end has read.
	Got    []byte
	Record bool

	// Op counting / stall: ops (reads that had to be served and writes) are
	// numbered from 0; when StallAt == op index the op blocks until Close.
	Ops       int
	StallAt   int
	StallKind string // "", "read", "write": restricts which kind is counted
	Stalled   chan struct{}
	// AfterOp >= 0: OnAfterOp is called (synchronously, by the goroutine doing the I/O, outside the
	// world lock) right after the op with that index has completed successfully - i.e. between two
	// I/O steps of whatever is using this end. Same numbering as StallAt.
	AfterOp    int
	OnAfterOp  func()
	CloseN     int
	ReadCalls  int
	BytesRead  int // bytes this end has taken off the connection
	waiting    bool
	curOp      int
	lastReadOp int // index of the op served by the read in progress (one reader per end)
}

func (e *End) unwaitLocked() {
	if e.waiting {
		e.waiting = false
		e.w.blocked--
	}
}

// Pipe creates a connected pair (a,b). Addresses are those seen by a: a.local,
// a.remote (= b.local).
func Pipe(w *World, aAddr, bAddr string) (*End, *End) {
	if w == nil {
		w = NewWorld(0)
	}
	a := &End{w: w, StallAt: -1, AfterOp: -1}
	b := &End{w: w, StallAt: -1, AfterOp: -1}
	a.peer, b.peer = b, a
	a.local, a.remote = Addr{"tcp", aAddr}, Addr{"tcp", bAddr}
	b.local, b.remote = Addr{"tcp", bAddr}, Addr{"tcp", aAddr}
	w.mu.Lock()
	w.eps = append(w.eps, a, b)
	w.mu.Unlock()
	return a, b
}

func (e *End) stallIfDue(kind string) bool {
	// called with world lock held; returns true if the op must fail (closed)
	e.curOp = -1
	if e.StallKind != "" && e.StallKind != kind {
		return false
	}
	idx := e.Ops
	e.Ops++
	e.curOp = idx
	if idx != e.StallAt {
		return false
	}
	if e.Stalled != nil {
		close(e.Stalled)
	}
	for !e.closed {
		e.w.cond.Wait()
	}
	return true
}

func (e *End) Read(p []byte) (int, error) {
	n, err := e.read(p)
	if err == nil && n > 0 && e.AfterOp >= 0 && e.lastReadOp == e.AfterOp && e.OnAfterOp != nil {
		e.lastReadOp = -1
		e.OnAfterOp()
	}
	return n, err
}

func (e *End) read(p []byte) (int, error) {
	w := e.w
	w.mu.Lock()
	defer w.mu.Unlock()
	e.ReadCalls++
	if len(p) == 0 {
		return 0, nil
	}
	myOp := -1
	if e.StallAt >= 0 || e.AfterOp >= 0 {
		if e.stallIfDue("read") {
			return 0, ErrClosed
		}
		myOp = e.curOp
	}
	e.lastReadOp = myOp
	for len(e.q) == 0 {
		if e.closed {
			return 0, ErrClosed
		}
		if e.rclosed {
			if e.rerr != nil {
				return 0, e.rerr
			}
			return 0, io.EOF
		}
		// The reader is counted as blocked until whoever makes progress possible
		// (a write, a close) un-counts it; it must not stay counted while it is
		// merely waiting to be scheduled after a wake-up.
		e.waiting = true
		w.blocked++
		w.checkStuckLocked()
		if !w.stuck {
			w.cond.Wait()
		}
		e.unwaitLocked()
	}
	lim := len(p)
	if e.ReadChunk > 0 && lim > e.ReadChunk {
		lim = e.ReadChunk // a link that delivers in small pieces: short reads
	}
	n := copy(p[:lim], e.q)
	e.q = e.q[n:]
	e.BytesRead += n
	if e.Record {
		e.Got = append(e.Got, p[:n]...)
	}
	return n, nil
}

func (e *End) Write(p []byte) (int, error) {
	w := e.w
	w.mu.Lock()
	if e.closed {
		w.mu.Unlock()
		return 0, ErrClosed
	}
	myOp := -1
	if e.StallAt >= 0 || e.AfterOp >= 0 {
		if e.stallIfDue("write") {
			w.mu.Unlock()
			return 0, ErrClosed
		}
		myOp = e.curOp
	}
	if e.peer.closed || w.stuck {
		w.mu.Unlock()
		return 0, io.ErrClosedPipe
	}
	hook := e.Hook
	if e.Record {
		e.Sent = append(e.Sent, p...)
	}
	w.mu.Unlock()
	out := [][]byte{p}
	if hook != nil {
		out = hook(append([]byte(nil), p...))
	}
	w.mu.Lock()
	for _, b := range out {
		if e.Record {
			e.Wire = append(e.Wire, b...)
		}
		e.peer.q = append(e.peer.q, b...)
	}
	if len(e.peer.q) > 0 {
		e.peer.unwaitLocked()
	}
	w.cond.Broadcast()
	w.mu.Unlock()
	if myOp >= 0 && myOp == e.AfterOp && e.OnAfterOp != nil {
		e.OnAfterOp()
	}
	return len(p), nil
}

// Inject delivers bytes to the peer as if written by this end, bypassing hook.
func (e *End) Inject(p []byte) {
	e.w.mu.Lock()
	e.peer.q = append(e.peer.q, p...)
	e.peer.unwaitLocked()
	e.w.cond.Broadcast()
	e.w.mu.Unlock()
}

func (e *End) Close() error {
	w := e.w
	w.mu.Lock()
	e.CloseN++
	again := e.closed
	if !e.closed {
		e.closed = true
		e.peer.rclosed = true
	}
	e.unwaitLocked()
	e.peer.unwaitLocked()
	w.cond.Broadcast()
	w.mu.Unlock()
	if again {
		return ErrClosed // like a real socket: closing twice is an error
	}
	return nil
}

// CloseWrite half-closes: the peer sees EOF after draining.
func (e *End) CloseWrite() {
	e.w.mu.Lock()
	e.peer.rclosed = true
	e.peer.unwaitLocked()
	e.w.cond.Broadcast()
	e.w.mu.Unlock()
}

func (e *End) IsClosed() bool {
	e.w.mu.Lock()
	defer e.w.mu.Unlock()
	return e.closed
}

// ClosedSoon reports whether this end has been closed, waiting up to d for it: an
// endpoint whose context ended closes its connection from a watcher goroutine, which may
// finish a moment after the blocked call has returned.
func (e *End) ClosedSoon(d time.Duration) bool {
	deadline := time.Now().Add(d)
	for {
		if e.IsClosed() {
			return true
		}
		if time.Now().After(deadline) {
			return false
		}
		time.Sleep(time.Millisecond)
	}
}

func (e *End) Pending() int {
	e.w.mu.Lock()
	defer e.w.mu.Unlock()
	return len(e.q)
}

func (e *End) LocalAddr() net.Addr                { return e.local }
func (e *End) RemoteAddr() net.Addr               { return e.remote }
func (e *End) SetAddrs(local, remote net.Addr)    { e.local, e.remote = local, remote }
func (e *End) SetDeadline(t time.Time) error      { return nil }
func (e *End) SetReadDeadline(t time.Time) error  { return nil }
func (e *End) SetWriteDeadline(t time.Time) error { return nil }

// Buf is the simplest conn: writes append to W, reads come from R; a read on an
// exhausted R returns io.EOF. Used by sequential drivers (sender writes into a
// buffer, the harness inspects / edits it, a receiver then reads it back).
type Buf struct {
	R      []byte
	W      []byte
	Closed bool
	Reads  int
	Remote string
}

func (b *Buf) Read(p []byte) (int, error) {
	if len(p) == 0 {
		return 0, nil
	}
	if len(b.R) == 0 {
		return 0, io.EOF
	}
	n := copy(p, b.R)
	b.R = b.R[n:]
	b.Reads += n
	return n, nil
}
func (b *Buf) Write(p []byte) (int, error) { b.W = append(b.W, p...); return len(p), nil }
func (b *Buf) Close() error                { b.Closed = true; return nil }
func (b *Buf) LocalAddr() net.Addr         { return Addr{"tcp", "10.0.0.1:1111"} }
func (b *Buf) RemoteAddr() net.Addr {
	if b.Remote != "" {
		return Addr{"tcp", b.Remote}
	}
	return Addr{"tcp", "10.0.0.2:2222"}
}
func (b *Buf) SetDeadline(t time.Time) error      { return nil }
func (b *Buf) SetReadDeadline(t time.Time) error  { return nil }
func (b *Buf) SetWriteDeadline(t time.Time) error { return nil }

// FrameSplitter re-frames an arbitrary sequence of writes into whole CEDAR
// frames (5-byte header + body). Feed returns the complete frames available.
type FrameSplitter struct{ buf []byte }

func (f *FrameSplitter) Feed(p []byte) [][]byte {
	f.buf = append(f.buf, p...)
	var out [][]byte
	for len(f.buf) >= 5 {
		n := int(uint32(f.buf[1])<<24 | uint32(f.buf[2])<<16 | uint32(f.buf[3])<<8 | uint32(f.buf[4]))
		if n > 64<<20 || len(f.buf) < 5+n {
			break
		}
		out = append(out, append([]byte(nil), f.buf[:5+n]...))
		f.buf = f.buf[5+n:]
	}
	return out
}

// Rest returns buffered bytes that do not yet form a whole frame.
func (f *FrameSplitter) Rest() []byte { return f.buf }
