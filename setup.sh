#!/bin/bash
# Builds both harness binaries once (warms the Go build cache). Offline.
set -e
cd "$(dirname "$0")"
export GOFLAGS=-mod=mod GOPROXY=off
unset GOSUMDB
cp /repo/go.sum ./go.sum 2>/dev/null || true
mkdir -p .build evidence
./check build
echo setup ok
