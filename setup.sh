#!/bin/bash
# Builds the harness once (warms the Go build cache). Offline.
set -e
cd "$(dirname "$0")"
export GOFLAGS=-mod=mod GOPROXY=off
unset GOSUMDB
cp /repo/go.sum ./go.sum 2>/dev/null || true
mkdir -p .build evidence
echo '{"Replace":{}}' > .build/overlay0.json
go build -tags verif -o .build/vharness ./cmd/vharness
echo setup ok
