// Package refcodec is an independent re-implementation of the CEDAR wire
// formats used as the oracle by the /verif checks. It is written from the
// property texts (C01, C02, C12, C14) and never calls the code under test.
//
//	frame      := end(1) len(4, big endian) body(len)
//	protected  := body = [base IV (16), first frame of a direction only]
//	                     AES-256-GCM(key, nonce, plaintext, aad) (ciphertext||tag16)
//	nonce      := base IV with its leading big-endian 32-bit word + frame counter
//	aad        := header(5)                                  (frames 2..)
//	              myDigest(32) || peerDigest(32) || header   (first frame, sender view:
//	              SHA-256 of everything the sender sent in the clear, then of what it
//	              received in the clear; all-zero for a direction with no cleartext)
package refcodec

import (
	"crypto/aes"
	"crypto/cipher"
	"crypto/sha256"
	"encoding/binary"
	"errors"
	"fmt"
	"math"
)

type Frame struct {
	End  byte
	Len  uint32
	Body []byte
	Off  int // offset of the header in the parsed stream
}

func (f Frame) Header() []byte {
	h := make([]byte, 5)
	h[0] = f.End
	binary.BigEndian.PutUint32(h[1:], f.Len)
	return h
}

func (f Frame) Bytes() []byte { return append(f.Header(), f.Body...) }

// MkFrame builds a cleartext frame.
func MkFrame(end byte, body []byte) []byte {
	h := make([]byte, 5, 5+len(body))
	h[0] = end
	binary.BigEndian.PutUint32(h[1:], uint32(len(body)))
	return append(h, body...)
}

// ParseFrames splits wire into whole frames; rest is a trailing partial frame.
func ParseFrames(wire []byte) (frames []Frame, rest []byte) {
	off := 0
	for len(wire)-off >= 5 {
		n := binary.BigEndian.Uint32(wire[off+1 : off+5])
		if uint64(len(wire)-off-5) < uint64(n) {
			break
		}
		frames = append(frames, Frame{End: wire[off], Len: n, Body: wire[off+5 : off+5+int(n)], Off: off})
		off += 5 + int(n)
	}
	return frames, wire[off:]
}

// Messages groups frames into messages (end flag != 0 terminates a message).
func Messages(frames []Frame) (msgs [][]byte, complete bool) {
	var cur []byte
	open := false
	for _, f := range frames {
		cur = append(cur, f.Body...)
		open = true
		if f.End != 0 {
			if cur == nil {
				cur = []byte{}
			}
			msgs = append(msgs, cur)
			cur = nil
			open = false
		}
	}
	return msgs, !open
}

// Digest is the running SHA-256 of the cleartext frames of one direction.
type Digest struct {
	h       [32]byte
	data    []byte
	written bool
}

func (d *Digest) Add(b []byte) {
	if len(b) > 0 {
		d.data = append(d.data, b...)
		d.written = true
	}
}

// Sum returns the digest: all zero when nothing was ever added.
func (d *Digest) Sum() [32]byte {
	if !d.written {
		return [32]byte{}
	}
	return sha256.Sum256(d.data)
}

// Dir is the reference state of one protected direction (one sender).
type Dir struct {
	gcm     cipher.AEAD
	BaseIV  [16]byte
	HaveIV  bool
	Counter uint32
	First   bool     // next frame is the first protected frame of this direction
	SenderD [32]byte // digest of what the sender of this direction sent in clear
	PeerD   [32]byte // digest of what the sender of this direction received in clear
	Nonces  map[[16]byte]int
}

func NewDir(key []byte, senderDigest, peerDigest [32]byte) (*Dir, error) {
	if len(key) != 32 {
		return nil, fmt.Errorf("refcodec: key must be 32 bytes")
	}
	blk, err := aes.NewCipher(key)
	if err != nil {
		return nil, err
	}
	g, err := cipher.NewGCMWithNonceSize(blk, 16)
	if err != nil {
		return nil, err
	}
	return &Dir{gcm: g, First: true, SenderD: senderDigest, PeerD: peerDigest, Nonces: map[[16]byte]int{}}, nil
}

func (d *Dir) nonce() [16]byte {
	n := d.BaseIV
	w := binary.BigEndian.Uint32(n[:4]) + d.Counter
	binary.BigEndian.PutUint32(n[:4], w)
	return n
}

func (d *Dir) aad(hdr []byte) []byte {
	if d.First {
		a := make([]byte, 0, 69)
		a = append(a, d.SenderD[:]...)
		a = append(a, d.PeerD[:]...)
		return append(a, hdr...)
	}
	return append([]byte(nil), hdr...)
}

var ErrAuth = errors.New("refcodec: frame does not authenticate")

// Open opens the next protected frame of this direction.
func (d *Dir) Open(f Frame) ([]byte, error) {
	body := f.Body
	if !d.HaveIV {
		if len(body) < 16 {
			return nil, fmt.Errorf("refcodec: first protected frame shorter than an IV (%d)", len(body))
		}
		copy(d.BaseIV[:], body[:16])
		d.HaveIV = true
		body = body[16:]
	}
	if len(body) < 16 {
		return nil, fmt.Errorf("refcodec: protected frame shorter than a tag (%d)", len(body))
	}
	n := d.nonce()
	pt, err := d.gcm.Open(nil, n[:], body, d.aad(f.Header()))
	if err != nil {
		return nil, ErrAuth
	}
	d.Nonces[n]++
	d.First = false
	d.Counter++
	if pt == nil {
		pt = []byte{}
	}
	return pt, nil
}

// Seal builds the next protected frame of this direction (BaseIV must be set by
// the caller before the first Seal; HaveIV is then set).
func (d *Dir) Seal(end byte, plaintext []byte) []byte {
	extra := 0
	if !d.HaveIV {
		extra = 16
	}
	hdr := make([]byte, 5)
	hdr[0] = end
	binary.BigEndian.PutUint32(hdr[1:], uint32(len(plaintext)+16+extra))
	n := d.nonce()
	ct := d.gcm.Seal(nil, n[:], plaintext, d.aad(hdr))
	out := append([]byte(nil), hdr...)
	if !d.HaveIV {
		out = append(out, d.BaseIV[:]...)
		d.HaveIV = true
	}
	out = append(out, ct...)
	d.Nonces[n]++
	d.First = false
	d.Counter++
	return out
}

// ---- typed values (C14) ----

func EncInt(v int64) []byte {
	b := make([]byte, 8)
	binary.BigEndian.PutUint64(b, uint64(v))
	return b
}

// EncDouble: fraction scaled by 2^31-1 (truncated toward zero, as a C cast
// does) and binary exponent, each as an integer.
func EncDouble(v float64) []byte {
	frac, exp := math.Frexp(v)
	fi := int32(frac * 2147483647.0)
	return append(EncInt(int64(fi)), EncInt(int64(exp))...)
}

// EncString: NUL-terminated; on an encrypted stream preceded by the length
// (including the NUL) as an integer.
func EncString(s string, encrypted bool) []byte {
	b := append([]byte(s), 0)
	if encrypted {
		return append(EncInt(int64(len(b))), b...)
	}
	return b
}
