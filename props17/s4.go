package props17

import (
	"github.com/bbockelm/cedar/security"
	"context"
	"fmt"
	"os"
	"strings"

	"github.com/bbockelm/cedar/ccb"
	"github.com/bbockelm/cedar/stream"
	"github.com/bbockelm/cedar/verifshim/vsched"

	"verif/vlib"
)

// ---- S4: one CCB broker registration. The heartbeat and the request handlers
// write to the broker stream (writeToBroker) while serve reads from it; the
// Listener's status getters and closeConn touch the registration's fields. ----

func s4Ad(kind string, n int) map[string]any {
	return map[string]any{ccb.AttrCommand: n, ccb.AttrRequestID: kind, ccb.AttrMyAddress: strings.Repeat(kind+"-", 6)}
}

// s4Case variant "io": two writers + serve's reader on the daemon side, the
// broker on the other end reads both ads and sends one; every ad must arrive
// intact. Variant "lifecycle": a writer, closeConn and the status getters;
// writes may fail once the connection is closed, so only races, deadlocks and
// panics are judged.
func s4Case(variant string, bound, maxExecs int) *vlib.Result {
	res := &vlib.Result{}
	var results []string
	mk := func() []func() {
		a, b := sPipe("10.1.1.1:1", "10.2.2.2:9618")
		sa, sb := stream.NewStream(a), stream.NewStream(b)
		_ = sa.SetSymmetricKey(s3Key)
		_ = sb.SetSymmetricKey(s3Key)
		reg := ccb.VerifNewBrokerReg(sa, a, "10.2.2.2:9618#7", true)
		ctx := context.Background()
		wr := func(i int, kind string, n int) func() {
			return func() {
				if err := reg.WriteToBroker(ctx, ccb.NewAd(s4Ad(kind, n))); err != nil {
					results[i] = "write: " + short(err.Error())
				} else {
					results[i] = "ok"
				}
			}
		}
		if variant == "io" {
			results = make([]string, 4)
			return []func(){
				wr(0, "result", 101),
				wr(1, "alive", 102),
				func() {
					ad, err := reg.ServeReadOne(ctx)
					if err != nil {
						results[2] = "read: " + short(err.Error())
						return
					}
					if id := ccb.AdString(ad, ccb.AttrRequestID); id != "request" {
						results[2] = "read: wrong ad " + id
						return
					}
					results[2] = "ok"
				},
				func() {
					// the broker: one request out, two ads in (either order)
					if err := ccb.WriteControlAd(ctx, sb, ccb.NewAd(s4Ad("request", 103))); err != nil {
						results[3] = "broker write: " + short(err.Error())
						return
					}
					got := map[string]bool{}
					for k := 0; k < 2; k++ {
						ad, err := ccb.ReadControlAd(ctx, sb)
						if err != nil {
							results[3] = "broker read: " + short(err.Error())
							return
						}
						id := ccb.AdString(ad, ccb.AttrRequestID)
						if ccb.AdString(ad, ccb.AttrMyAddress) != strings.Repeat(id+"-", 6) {
							results[3] = "broker read: damaged ad " + ad.String()
							return
						}
						got[id] = true
					}
					if !got["result"] || !got["alive"] {
						results[3] = fmt.Sprintf("broker read: got %v", got)
						return
					}
					results[3] = "ok"
				},
			}
		}
		results = make([]string, 4)
		return []func(){
			wr(0, "result", 101),
			func() { reg.CloseConn(); results[1] = "ok" },
			func() {
				results[2] = fmt.Sprintf("ok contact=%q n=%d streaming=%v", reg.L.Contact(), reg.L.NumRegistered(), reg.L.BrokerSupportsStreaming())
			},
			func() {
				// the broker drains whatever arrives until the connection closes
				for {
					if _, err := ccb.ReadControlAd(ctx, sb); err != nil {
						break
					}
				}
				results[3] = "ok"
			},
		}
	}
	seen := map[string]bool{}
	st := vsched.Explore(bound, 20000, maxExecs, mk, func(x *vsched.Sched) {
		res.Evals++
		res.Transitions += len(x.Points)
		for _, r := range x.Races {
			k := raceKey(r)
			if !seen[k] {
				seen[k] = true
				res.Violate("C17/S4/"+variant+"/data-race/"+k, "broker registration shared by its writers, its reader and the status getters: unsynchronised accesses %s (schedule %v)", r, choices(x))
			}
		}
		if x.Deadlock {
			res.Violate("C17/S4/"+variant+"/deadlock", "schedule %v", choices(x))
		}
		if x.Diverged || x.StepLimit {
			res.Violate("C17/S4/harness-divergence", "diverged=%v steplimit=%v", x.Diverged, x.StepLimit)
		}
		for _, p := range x.Panics {
			res.Violate("C17/S4/"+variant+"/panic", "%s", p)
		}
		if variant == "io" {
			for i, r := range results {
				if r != "ok" && !seen["fail"] {
					seen["fail"] = true
					res.Violate("C17/S4/io/messages-damaged", "thread %d: %s (schedule %v)", i, r, choices(x))
				}
			}
		} else {
			// the getters observe the registration either before or after closeConn, never a mixture
			if r := results[2]; r != `ok contact="10.2.2.2:9618#7" n=1 streaming=true` && r != `ok contact="" n=0 streaming=false` &&
				r != `ok contact="10.2.2.2:9618#7" n=0 streaming=false` && r != `ok contact="10.2.2.2:9618#7" n=1 streaming=false` && !seen["mix"] {
				seen["mix"] = true
				res.Violate("C17/S4/lifecycle/torn-status", "status getters returned %s (schedule %v)", r, choices(x))
			}
		}
		res.Outcome(strings.Join(resultKinds(results), ","))
	})
	if st.Capped {
		res.Outcome("capped")
	}
	res.Nontrivial = res.Evals
	res.States = append(res.States, "S4/"+variant)
	res.Sample = map[string]any{"scenario": "S4/" + variant + " CCB broker registration", "threads": 4, "executions": st.Execs, "max_points": st.MaxPoints, "bound": bound, "capped": st.Capped}
	return res
}

// ---- S5: the session-id counter. Every server handshake takes the next value of one
// process-wide counter to make its session id unique within a second; values handed
// to concurrent callers must all differ. ----

func s5Case(bound, maxExecs int) *vlib.Result {
	res := &vlib.Result{}
	var got [][]int
	mk := func() []func() {
		got = make([][]int, 3)
		var bodies []func()
		for t := 0; t < 3; t++ {
			t := t
			bodies = append(bodies, func() {
				for i := 0; i < 2; i++ {
					got[t] = append(got[t], security.GetNextSessionCounter())
				}
			})
		}
		return bodies
	}
	seen := map[string]bool{}
	st := vsched.Explore(bound, 4000, maxExecs, mk, func(x *vsched.Sched) {
		res.Evals++
		res.Transitions += len(x.Points)
		for _, r := range x.Races {
			k := raceKey(r)
			if !seen[k] {
				seen[k] = true
				res.Violate("C17/S5/data-race/"+k, "session counter: unsynchronised accesses %s (schedule %v)", r, choices(x))
			}
		}
		if x.Deadlock || x.Diverged || x.StepLimit {
			res.Violate("C17/S5/harness-divergence", "deadlock=%v diverged=%v steplimit=%v", x.Deadlock, x.Diverged, x.StepLimit)
		}
		vals := map[int]bool{}
		for t := range got {
			for i, v := range got[t] {
				if vals[v] && !seen["dup"] {
					seen["dup"] = true
					res.Violate("C17/S5/duplicate-session-counter", "three goroutines drawing session counters got %v: a value was handed out twice, so two sessions created in the same second share one id (schedule %v)", got, choices(x))
				}
				vals[v] = true
				if i > 0 && v <= got[t][i-1] && !seen["order"] {
					seen["order"] = true
					res.Violate("C17/S5/counter-not-increasing", "one goroutine saw %v", got[t])
				}
			}
		}
		res.Outcome("counter-ok")
	})
	if st.Capped {
		res.Outcome("capped")
	}
	res.Nontrivial = res.Evals
	res.States = append(res.States, "S5")
	res.Sample = map[string]any{"scenario": "S5 session-id counter", "threads": 3, "executions": st.Execs, "bound": bound}
	return res
}

// ---- S6: a process's FIRST uses of the package-global session cache, made concurrently.
// The cache is built lazily and, on first use, filled with the sessions the parent daemon
// handed down in the environment; every caller - however the first calls interleave - must
// get the one cache with the inherited sessions in it. ----

func s6Case(threads, bound, maxExecs int) *vlib.Result {
	res := &vlib.Result{}
	const parent = "<10.7.7.7:9618>"
	key := strings.Repeat("0123456789abcdef", 4)
	inherit := fmt.Sprintf("SessionKey:inh-a#[CryptoMethods=\"AESGCM\";Encryption=\"YES\";ValidCommands=\"60008\";]#%s FamilySessionKey:inh-b#[CryptoMethods=\"AESGCM\";Encryption=\"YES\";]#%s", key, key)
	type obs struct {
		cache  *security.SessionCache
		foundA bool
		foundB bool
	}
	var got []obs
	mk := func() []func() {
		security.VerifResetGlobalSessionState()
		_ = os.Setenv("CONDOR_INHERIT", "4242 "+parent+" 0")
		_ = os.Setenv("CONDOR_PRIVATE_INHERIT", inherit)
		got = make([]obs, threads)
		var bodies []func()
		for t := 0; t < threads; t++ {
			t := t
			bodies = append(bodies, func() {
				c := security.GetSessionCache()
				_, a := c.LookupNonExpired("inh-a")
				_, b := c.LookupNonExpired("inh-b")
				got[t] = obs{c, a, b}
			})
		}
		return bodies
	}
	seen := map[string]bool{}
	st := vsched.Explore(bound, 20000, maxExecs, mk, func(x *vsched.Sched) {
		res.Evals++
		res.Transitions += len(x.Points)
		for _, r := range x.Races {
			k := raceKey(r)
			if !seen[k] {
				seen[k] = true
				res.Violate("C17/S6/data-race/"+k, "first use of the global session cache: unsynchronised accesses %s (schedule %v)", r, choices(x))
			}
		}
		if x.Deadlock || x.Diverged || x.StepLimit {
			if !seen["div"] {
				seen["div"] = true
				res.Violate("C17/S6/harness-divergence", "deadlock=%v diverged=%v steplimit=%v (schedule %v)", x.Deadlock, x.Diverged, x.StepLimit, choices(x))
			}
			return
		}
		for t := range got {
			if got[t].cache == nil || got[t].cache != got[0].cache {
				if !seen["two"] {
					seen["two"] = true
					res.Violate("C17/S6/two-global-caches", "concurrent first callers of GetSessionCache got different caches (schedule %v)", choices(x))
				}
			}
			if (!got[t].foundA || !got[t].foundB) && !seen["inh"] {
				seen["inh"] = true
				res.Violate("C17/S6/inherited-session-invisible", "thread %d obtained the global session cache before the inherited sessions were in it (inh-a found=%v, inh-b found=%v; schedule %v)", t, got[t].foundA, got[t].foundB, choices(x))
			}
		}
		res.Outcome("first-use-ok")
	})
	if st.Capped {
		res.Outcome("capped")
	}
	_ = os.Unsetenv("CONDOR_INHERIT")
	_ = os.Unsetenv("CONDOR_PRIVATE_INHERIT")
	security.VerifResetGlobalSessionState()
	res.Nontrivial = res.Evals
	res.States = append(res.States, fmt.Sprintf("S6/threads=%d", threads))
	res.Sample = map[string]any{"scenario": "S6 first concurrent uses of the global session cache", "threads": threads, "executions": st.Execs, "bound": bound, "capped": st.Capped}
	return res
}
