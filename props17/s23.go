package props17

import (
	"context"
	"fmt"
	"io"
	"log/slog"
	"net"
	"strings"

	"github.com/bbockelm/cedar/client"
	"github.com/bbockelm/cedar/message"
	"github.com/bbockelm/cedar/security"
	"github.com/bbockelm/cedar/server"
	"github.com/bbockelm/cedar/stream"
	"github.com/bbockelm/cedar/verifshim/vnet"
	"github.com/bbockelm/cedar/verifshim/vsched"

	"verif/vlib"
)

func init() {
	slog.SetDefault(slog.New(slog.NewTextHandler(io.Discard, &slog.HandlerOptions{Level: slog.LevelError + 8})))
}

const s2Addr = "10.2.2.2:9618"

// ---- S2: concurrent client connections sharing one security configuration and
// one cache, against concurrent server handshakes sharing the global cache ----

func s2ClientSec(cache *security.SessionCache) *security.SecurityConfig {
	return &security.SecurityConfig{
		// the shared policy lists a method the server does not offer before the one it does
		AuthMethods: []security.AuthMethod{security.AuthFS, security.AuthClaimToBe}, Authentication: security.SecurityRequired,
		CryptoMethods: []security.CryptoMethod{security.CryptoAES}, Encryption: security.SecurityRequired, Integrity: security.SecurityOptional,
		TrustDomain: "verif.domain", Command: 5, SessionCache: cache,
	}
}

// s2Server: with perCmd the command's policy comes from SecurityConfigForCommand,
// which hands back ONE policy object for every connection (a policy table).
func s2Server(perCmd bool) *server.Server {
	sc := &security.SecurityConfig{
		AuthMethods: []security.AuthMethod{security.AuthClaimToBe}, Authentication: security.SecurityRequired,
		CryptoMethods: []security.CryptoMethod{security.CryptoAES}, Encryption: security.SecurityRequired, Integrity: security.SecurityOptional,
		TrustDomain: "verif.domain",
	}
	srv := server.New(sc)
	if perCmd {
		shared := *sc
		srv.SecurityConfigForCommand = func(int) *security.SecurityConfig { return &shared }
	}
	srv.Handle(5, func(ctx context.Context, c *server.Conn) error {
		m := message.NewMessageForStream(c.Stream)
		_ = m.PutString(ctx, "hello-from-handler")
		return m.FinishMessage(ctx)
	}, "READ")
	return srv
}

// s2Once runs n concurrent client connections (threads 0..n-1) and n server
// connections (threads n..2n-1) under the scheduler.
func s2Case(resume bool, nClients, bound, maxExecs int, perCmd bool) *vlib.Result {
	res := &vlib.Result{}
	label := "fresh"
	if resume {
		label = "resume-shared-session"
	}
	if perCmd {
		label += "/shared-per-command-policy"
	}
	_ = security.GetSessionCache() // run the sync.Once outside the scheduler
	var results, sids []string
	var sharedSec *security.SecurityConfig
	var ends []*sEnd
	mk := func() []func() {
		security.ClearSessionCache()
		cache := security.NewSessionCache()
		sec := s2ClientSec(cache)
		sharedSec = sec
		srv := s2Server(perCmd)
		if resume {
			// establish one session sequentially (no scheduler active yet)
			a, b := sPipe("10.1.1.1:5000", s2Addr)
			done := make(chan error, 1)
			go func() { done <- srv.ServeConn(context.Background(), b) }()
			vnet.DialHook = func(ctx context.Context, network, addr string) (net.Conn, error) { return a, nil }
			c, err := client.ConnectAndAuthenticateWithConfig(context.Background(), &client.ClientConfig{Address: s2Addr, Security: sec})
			if err == nil {
				_, _ = c.GetStream().ReceiveCompleteMessage(context.Background())
				_ = c.Close()
			}
			<-done
		}
		results = make([]string, nClients)
		sids = make([]string, nClients)
		ends = nil
		var cEnds []*sEnd
		for i := 0; i < nClients; i++ {
			a, b := sPipe(fmt.Sprintf("10.1.1.%d:5000", i+1), s2Addr)
			cEnds = append(cEnds, a)
			ends = append(ends, b)
		}
		vnet.DialHook = func(ctx context.Context, network, addr string) (net.Conn, error) {
			return cEnds[vsched.Cur().ID], nil
		}
		var bodies []func()
		for i := 0; i < nClients; i++ {
			i := i
			bodies = append(bodies, func() {
				cfg := &client.ClientConfig{Address: s2Addr, Security: sec}
				c, err := client.ConnectAndAuthenticateWithConfig(context.Background(), cfg)
				if err != nil {
					results[i] = "handshake-error: " + short(err.Error())
					cEnds[i].Close()
					return
				}
				m, err := message.NewMessageFromStream(c.GetStream()).GetString(context.Background())
				if err != nil || m != "hello-from-handler" {
					results[i] = fmt.Sprintf("app-error: %q %v", m, err)
				} else {
					results[i] = "ok"
					if n := c.GetSecurityNegotiation(); n != nil && resume && !n.SessionResumed {
						results[i] = "ok-but-not-resumed"
					}
					if n := c.GetSecurityNegotiation(); n != nil {
						sids[i] = n.SessionId
					}
				}
				_ = c.Close()
			})
		}
		for i := 0; i < nClients; i++ {
			i := i
			bodies = append(bodies, func() {
				_ = srv.ServeConn(context.Background(), ends[i])
				ends[i].Close()
			})
		}
		return bodies
	}
	seen := map[string]bool{}
	// every stream belongs to one connection and one thread here: its fields need no scheduling points
	vsched.YieldFilter = func(desc string) bool { return !strings.HasPrefix(desc, "stream.go:") }
	defer func() { vsched.YieldFilter = nil }()
	st := vsched.Explore(bound, 20000, maxExecs, mk, func(x *vsched.Sched) {
		res.Evals++
		res.Transitions += len(x.Points)
		for _, r := range x.Races {
			k := raceKey(r)
			if !seen["race/"+k] {
				seen["race/"+k] = true
				res.Violate("C17/S2/"+label+"/data-race/"+k, "%d concurrent client connections sharing one SecurityConfig: unsynchronised accesses %s (schedule %v)", nClients, r, choices(x))
			}
		}
		if x.Deadlock {
			res.Violate("C17/S2/"+label+"/deadlock", "schedule %v", choices(x))
		}
		if x.Diverged || x.StepLimit {
			res.Violate("C17/S2/harness-divergence", "diverged=%v steplimit=%v", x.Diverged, x.StepLimit)
		}
		for _, p := range x.Panics {
			res.Violate("C17/S2/"+label+"/panic", "%s", p)
		}
		for i, r := range results {
			if r != "ok" {
				k := strings.SplitN(r, ":", 2)[0]
				if !seen["fail/"+k] {
					seen["fail/"+k] = true
					res.Violate("C17/S2/"+label+"/handshakes-disturb-each-other/"+k, "client %d of %d concurrent connections sharing one configuration failed although each succeeds alone: %s (schedule %v)", i, nClients, r, choices(x))
				}
			}
		}
		if fmt.Sprint(sharedSec.AuthMethods) != "[FS CLAIMTOBE]" && !seen["mutated"] {
			seen["mutated"] = true
			res.Violate("C17/S2/"+label+"/shared-config-mutated", "after %d concurrent connections the shared SecurityConfig's AuthMethods read %v (configured: [FS CLAIMTOBE]) (schedule %v)", nClients, sharedSec.AuthMethods, choices(x))
		}
		if !resume {
			for i := range sids {
				for j := i + 1; j < len(sids); j++ {
					if sids[i] != "" && sids[i] == sids[j] && !seen["samesid"] {
						seen["samesid"] = true
						res.Violate("C17/S2/"+label+"/two-sessions-one-id", "two concurrent fresh handshakes were given the same session id %s (schedule %v)", short(sids[i]), choices(x))
					}
				}
			}
		}
		res.Outcome(strings.Join(resultKinds(results), ","))
	})
	vnet.DialHook = nil
	if st.Capped {
		res.Outcome("capped")
	}
	res.Nontrivial = res.Evals
	res.States = append(res.States, "S2/"+label)
	res.Sample = map[string]any{"scenario": "S2/" + label, "threads": 2 * nClients, "executions": st.Execs, "max_points": st.MaxPoints, "bound": bound, "capped": st.Capped}
	return res
}

func resultKinds(r []string) []string {
	var o []string
	for _, x := range r {
		o = append(o, strings.SplitN(x, ":", 2)[0])
	}
	return o
}

func short(s string) string {
	if len(s) > 140 {
		return s[:140]
	}
	return s
}

// ---- S3: one established encrypted stream, a writer and a reader thread on
// each end ----

var s3Key = []byte("0123456789abcdef0123456789ABCDEF")

func s3Send(s *stream.Stream, tag string) error {
	ctx := context.Background()
	if err := s.SendMessage(ctx, []byte(tag+"-1")); err != nil {
		return err
	}
	m := message.NewMessageForStream(s)
	_ = m.PutInt(ctx, 7)
	_ = m.PutString(ctx, tag+"-2")
	if err := m.FinishMessage(ctx); err != nil {
		return err
	}
	s.StartMessage()
	if err := s.WriteMessage(ctx, []byte(tag+"-3")); err != nil {
		return err
	}
	return s.EndMessage(ctx)
}

func s3Recv(s *stream.Stream, tag string) string {
	ctx := context.Background()
	m1, err := s.ReceiveCompleteMessage(ctx)
	if err != nil || string(m1) != tag+"-1" {
		return fmt.Sprintf("msg1 %q %v", m1, err)
	}
	m := message.NewMessageFromStream(s)
	i, err := m.GetInt(ctx)
	str, err2 := m.GetString(ctx)
	if err != nil || err2 != nil || i != 7 || str != tag+"-2" {
		return fmt.Sprintf("msg2 %d %q %v %v", i, str, err, err2)
	}
	if err := s.StartMessageRead(ctx); err != nil {
		return "msg3 " + err.Error()
	}
	buf := make([]byte, 64)
	n, err := s.ReadMessageBytes(ctx, buf)
	if err != nil || string(buf[:n]) != tag+"-3" {
		return fmt.Sprintf("msg3 %q %v", buf[:n], err)
	}
	if err := s.EndMessageRead(); err != nil {
		return "msg3 end " + err.Error()
	}
	return "ok"
}

func s3Case(bound, maxExecs int) *vlib.Result {
	res := &vlib.Result{}
	var results []string
	mk := func() []func() {
		a, b := sPipe("10.1.1.1:1", "10.2.2.2:2")
		sa, sb := stream.NewStream(a), stream.NewStream(b)
		_ = sa.SetSymmetricKey(s3Key)
		_ = sb.SetSymmetricKey(s3Key)
		results = make([]string, 4)
		return []func(){
			func() {
				if err := s3Send(sa, "from-A"); err != nil {
					results[0] = err.Error()
				} else {
					results[0] = "ok"
				}
			},
			func() { results[1] = s3Recv(sa, "from-B") },
			func() {
				if err := s3Send(sb, "from-B"); err != nil {
					results[2] = err.Error()
				} else {
					results[2] = "ok"
				}
			},
			func() { results[3] = s3Recv(sb, "from-A") },
		}
	}
	seen := map[string]bool{}
	st := vsched.Explore(bound, 20000, maxExecs, mk, func(x *vsched.Sched) {
		res.Evals++
		res.Transitions += len(x.Points)
		for _, r := range x.Races {
			k := raceKey(r)
			if !seen[k] {
				seen[k] = true
				res.Violate("C17/S3/data-race/"+k, "one goroutine writing and another reading the same established stream: unsynchronised accesses %s (schedule %v)", r, choices(x))
			}
		}
		if x.Deadlock {
			res.Violate("C17/S3/deadlock", "schedule %v", choices(x))
		}
		if x.Diverged || x.StepLimit {
			res.Violate("C17/S3/harness-divergence", "diverged=%v steplimit=%v", x.Diverged, x.StepLimit)
		}
		for _, p := range x.Panics {
			res.Violate("C17/S3/panic", "%s", p)
		}
		for i, r := range results {
			if r != "ok" && !seen["fail"] {
				seen["fail"] = true
				res.Violate("C17/S3/messages-damaged", "thread %d: %s (schedule %v)", i, r, choices(x))
			}
		}
		res.Outcome(strings.Join(results, ","))
	})
	if st.Capped {
		res.Outcome("capped")
	}
	res.Nontrivial = res.Evals
	res.States = append(res.States, "S3")
	res.Sample = map[string]any{"scenario": "S3 simultaneous send/receive on one stream", "threads": 4, "executions": st.Execs, "max_points": st.MaxPoints, "bound": bound, "capped": st.Capped}
	return res
}
