package props17

import (
	"io"
	"net"
	"sync"
	"time"

	"github.com/bbockelm/cedar/verifshim/vsched"
)

// sEnd is one end of a scheduler-aware in-memory connection: Read blocks at a
// scheduling point until data (or close) is available; Write is a scheduling
// point and transfers the writer's vector clock to the reader.
type sEnd struct {
	mu     *sync.Mutex // used only when no scheduler is active (sequential set-up phases)
	cond   *sync.Cond
	peer   *sEnd
	q      []byte
	vc     []int
	closed bool
	rEOF   bool
	local  string
	remote string
}

type sAddr string

func (a sAddr) Network() string { return "tcp" }
func (a sAddr) String() string  { return string(a) }

func sPipe(a, b string) (*sEnd, *sEnd) {
	mu := &sync.Mutex{}
	cond := sync.NewCond(mu)
	x, y := &sEnd{local: a, remote: b, mu: mu, cond: cond}, &sEnd{local: b, remote: a, mu: mu, cond: cond}
	x.peer, y.peer = y, x
	return x, y
}

func (e *sEnd) Read(p []byte) (int, error) {
	if len(p) == 0 {
		return 0, nil
	}
	if vsched.Active() {
		vsched.Block("conn.Read", func() bool { return len(e.q) > 0 || e.closed || e.rEOF })
		vsched.Cur().Join(e.vc)
	} else {
		e.mu.Lock()
		defer e.mu.Unlock()
		for len(e.q) == 0 && !e.closed && !e.rEOF {
			e.cond.Wait()
		}
	}
	if len(e.q) == 0 {
		if e.closed {
			return 0, io.ErrClosedPipe
		}
		return 0, io.EOF
	}
	n := copy(p, e.q)
	e.q = e.q[n:]
	return n, nil
}

func (e *sEnd) Write(p []byte) (int, error) {
	if vsched.Active() {
		vsched.Yield("conn.Write")
	} else {
		e.mu.Lock()
		defer e.mu.Unlock()
		defer e.cond.Broadcast()
	}
	if e.closed || e.peer.closed {
		return 0, io.ErrClosedPipe
	}
	e.peer.q = append(e.peer.q, p...)
	if vsched.Active() {
		t := vsched.Cur()
		snap := t.Snapshot()
		if e.peer.vc == nil {
			e.peer.vc = snap
		} else {
			for i := range snap {
				if snap[i] > e.peer.vc[i] {
					e.peer.vc[i] = snap[i]
				}
			}
		}
		t.Tick()
	}
	return len(p), nil
}

func (e *sEnd) Close() error {
	if !vsched.Active() {
		e.mu.Lock()
		defer e.mu.Unlock()
		defer e.cond.Broadcast()
	}
	e.closed = true
	e.peer.rEOF = true
	return nil
}
func (e *sEnd) LocalAddr() net.Addr                { return sAddr(e.local) }
func (e *sEnd) RemoteAddr() net.Addr               { return sAddr(e.remote) }
func (e *sEnd) SetDeadline(t time.Time) error      { return nil }
func (e *sEnd) SetReadDeadline(t time.Time) error  { return nil }
func (e *sEnd) SetWriteDeadline(t time.Time) error { return nil }
