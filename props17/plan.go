// Package props17 holds the C17 check (E-SCHED): it is built against
// instrumented copies of cedar's shared-state files (see ./check), so it lives
// apart from the other checks.
package props17

import (
	"fmt"

	"verif/vlib"
)

func C17Plan() *vlib.Plan {
	p := &vlib.Plan{
		Property: "C17", Level: "model_checking", Procs: 16,
		Rule:   "E-SCHED: the real code runs under a controlled cooperative scheduler (one runnable thread at a time; scheduling points at every lock/unlock, every atomic operation, every instrumented field access and every conn read/write), depth-first over schedules with iterative deviation bounding (every non-default scheduling choice costs one), plus a vector-clock happens-before race detector on the instrumented fields. S1: all multisets of 3 single-operation threads (thorough: also all 2 x 2-operation thread pairs) over 19 session-cache / entry operations on colliding sessions and command keys; every execution's results and final state must equal those of some sequential order of the calls (brute-force linearisation on the real structure) with no race or deadlock. S2: 2 (thorough 3) concurrent client.ConnectAndAuthenticateWithConfig calls sharing one SecurityConfig and cache against concurrent server.ServeConn (plain, and with SecurityConfigForCommand returning one shared policy object), fresh and all resuming one session: no race, every connection succeeds as it does alone. S3: one established encrypted stream with a writer and a reader thread on each end: no race on any Stream field, all messages intact. S4: one CCB broker registration (ccb/listener.go) with its encrypted broker stream established: two writeToBroker callers (heartbeat, request result) + serve's reader + the broker on the far end (every control ad intact), and writer + closeConn + the Listener's status getters (no race, no deadlock, no torn status). S5: three threads drawing two session-id counter values each (atomic operations are scheduling points): all values distinct. S6: 2 and 3 threads making a process's first uses of the package-global session cache (lazy construction + import of the sessions inherited through the environment; the package's lazy state is reset before every execution through a seam): one cache for all, with the inherited sessions visible to every caller. state = scenario / thread-program tuple; transitions = scheduling points executed; every execution is the implementation itself.",
		Assume: []string{"sequentially consistent interleavings only (no weak-memory behaviours); races are reported on instrumented fields only (SessionEntry.{expiration,lastPeerVersion,inherited}, SessionCache.{sessions,commandMap}, SecurityConfig.ECDHPublicKey, all stream.Stream fields, brokerReg.{stream,conn,contact,cookie,brokerStreaming,registered})", "a free-running `go test -race` of the same bodies is run as a supplement by tools/race_supplement.sh and never decides"},
	}
	p.Gen = func(tier string, yield func(vlib.Case)) {
		b1, b2, b3 := 2, 1, 1
		maxExecs := 200000
		if tier == "thorough" {
			b1, b2, b3 = 3, 2, 2
			maxExecs = 3000000
		}
		p.Bounds = map[string]any{"S1_deviation_bound": b1, "S2_deviation_bound": b2, "S3_deviation_bound": b3, "max_executions_per_case": maxExecs, "cache_ops": len(cacheOps)}
		n := len(cacheOps)
		for a := 0; a < n; a++ {
			for b := a; b < n; b++ {
				for c := b; c < n; c++ {
					a, b, c := a, b, c
					yield(vlib.Case{ID: fmt.Sprintf("S1/%d,%d,%d", a, b, c), Run: func() *vlib.Result {
						return s1Case([][]int{{a}, {b}, {c}}, b1, maxExecs)
					}})
				}
			}
		}
		if tier == "thorough" {
			for a := 0; a < n; a++ {
				for b := 0; b < n; b++ {
					for c := a; c < n; c++ {
						for d := 0; d < n; d++ {
							if c == a && d < b {
								continue
							}
							a, b, c, d := a, b, c, d
							yield(vlib.Case{ID: fmt.Sprintf("S1b/%d;%d||%d;%d", a, b, c, d), Run: func() *vlib.Result {
								return s1Case([][]int{{a, b}, {c, d}}, 2, maxExecs)
							}})
						}
					}
				}
			}
		}
		for _, resume := range []bool{false, true} {
			resume := resume
			yield(vlib.Case{ID: fmt.Sprintf("S2/resume=%v/clients=2", resume), Run: func() *vlib.Result { return s2Case(resume, 2, b2, maxExecs, false) }})
			yield(vlib.Case{ID: fmt.Sprintf("S2/resume=%v/clients=2/per-command-policy", resume), Run: func() *vlib.Result { return s2Case(resume, 2, b2, maxExecs, true) }})
			if tier == "thorough" {
				yield(vlib.Case{ID: fmt.Sprintf("S2/resume=%v/clients=3", resume), Run: func() *vlib.Result { return s2Case(resume, 3, 1, maxExecs, false) }})
			}
		}
		yield(vlib.Case{ID: "S3/stream", Run: func() *vlib.Result { return s3Case(b3, maxExecs) }})
		yield(vlib.Case{ID: "S5/session-counter", Run: func() *vlib.Result { return s5Case(b1+1, maxExecs) }})
		yield(vlib.Case{ID: "S6/first-use/threads=2", Run: func() *vlib.Result { return s6Case(2, b1+1, maxExecs) }})
		yield(vlib.Case{ID: "S6/first-use/threads=3", Run: func() *vlib.Result { return s6Case(3, b1, maxExecs) }})
		yield(vlib.Case{ID: "S4/io", Run: func() *vlib.Result { return s4Case("io", b3, maxExecs) }})
		yield(vlib.Case{ID: "S4/lifecycle", Run: func() *vlib.Result { return s4Case("lifecycle", b3+1, maxExecs) }})
	}
	return p
}
