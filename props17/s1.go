package props17

import (
	"fmt"
	"regexp"
	"sort"
	"strings"
	"time"

	"github.com/bbockelm/cedar/security"
	"github.com/bbockelm/cedar/verifshim/vsched"

	"verif/vlib"
)

// ---- S1: the session cache under 2-3 threads ----

type cacheWorld struct {
	c  *security.SessionCache
	e1 *security.SessionEntry // live, leased
	e2 *security.SessionEntry // expired
}

func newCacheWorld() *cacheWorld {
	w := &cacheWorld{c: security.NewSessionCache()}
	w.e1 = security.NewSessionEntry("s1", "a", nil, nil, time.Now().Add(2*time.Hour), 30*time.Minute, "")
	w.e2 = security.NewSessionEntry("s2", "a", nil, nil, time.Now().Add(-time.Hour), 0, "")
	w.c.Store(w.e1)
	w.c.Store(w.e2)
	w.c.MapCommand("", "a", "5", "s1")
	w.c.MapCommand("", "a", "6", "s2")
	return w
}

type cacheOp struct {
	name string
	run  func(w *cacheWorld) string
}

var expRE = regexp.MustCompile(`exp=\S+`)

func b2s(b bool) string {
	if b {
		return "T"
	}
	return "F"
}

var cacheOps = []cacheOp{
	{"Store(s3)", func(w *cacheWorld) string {
		w.c.Store(security.NewSessionEntry("s3", "b", nil, nil, time.Now().Add(time.Hour), 0, ""))
		return ""
	}},
	{"Store(s2')", func(w *cacheWorld) string {
		// a fresh entry re-registered under the id of the expired one
		w.c.Store(security.NewSessionEntry("s2", "a", nil, nil, time.Now().Add(time.Hour), 0, "fresh"))
		return ""
	}},
	{"Invalidate(s2)", func(w *cacheWorld) string { return b2s(w.c.Invalidate("s2")) }},
	{"Clear", func(w *cacheWorld) string { w.c.Clear(); return "" }},
	{"Lookup(s1)", func(w *cacheWorld) string { _, ok := w.c.Lookup("s1"); return b2s(ok) }},
	{"Lookup(s2)", func(w *cacheWorld) string { _, ok := w.c.Lookup("s2"); return b2s(ok) }},
	{"LookupNonExpired(s2)", func(w *cacheWorld) string { _, ok := w.c.LookupNonExpired("s2"); return b2s(ok) }},
	{"LookupNonExpired(s1)", func(w *cacheWorld) string { _, ok := w.c.LookupNonExpired("s1"); return b2s(ok) }},
	{"LookupByCommand(5)", func(w *cacheWorld) string { _, ok := w.c.LookupByCommand("", "a", "5"); return b2s(ok) }},
	{"LookupByCommand(6)", func(w *cacheWorld) string { _, ok := w.c.LookupByCommand("", "a", "6"); return b2s(ok) }},
	{"MapCommand(7->s1)", func(w *cacheWorld) string { w.c.MapCommand("", "a", "7", "s1"); return "" }},
	{"RenewLease(s1)", func(w *cacheWorld) string { w.e1.RenewLease(); return "" }},
	{"IsExpired(s1)", func(w *cacheWorld) string { return b2s(w.e1.IsExpired()) + b2s(w.e1.Expiration().After(time.Now())) }},
	{"Invalidate(s1)", func(w *cacheWorld) string { return b2s(w.c.Invalidate("s1")) }},
	{"InvalidateExpired", func(w *cacheWorld) string { return fmt.Sprint(w.c.InvalidateExpired()) }},
	{"DebugDump", func(w *cacheWorld) string {
		l := strings.Split(expRE.ReplaceAllString(w.c.DebugDump(), "exp=*"), "\n")
		sort.Strings(l)
		return strings.Join(l, "|")
	}},
	{"Snapshot", func(w *cacheWorld) string {
		var ids []string
		for _, e := range w.c.Snapshot() {
			ids = append(ids, e.ID())
		}
		sort.Strings(ids)
		return strings.Join(ids, ",")
	}},
	{"Size", func(w *cacheWorld) string { return fmt.Sprint(w.c.Size()) }},
	{"SetPeerVersion+IsInherited(s1)", func(w *cacheWorld) string {
		w.e1.SetLastPeerVersion("v")
		w.e1.SetInherited(true)
		return b2s(w.e1.IsInherited()) + w.e1.LastPeerVersion()
	}},
}

func (w *cacheWorld) final() string {
	var parts []string
	for _, id := range []string{"s1", "s2", "s3"} {
		e, ok := w.c.Lookup(id)
		tag := ""
		if ok {
			tag = e.Tag() // tells the re-registered s2 from the original
		}
		parts = append(parts, id+"="+b2s(ok)+tag)
	}
	for _, cmd := range []string{"5", "6", "7"} {
		e, ok := w.c.LookupByCommand("", "a", cmd)
		r := "-"
		if ok {
			r = e.ID()
		}
		parts = append(parts, cmd+"->"+r)
	}
	parts = append(parts, fmt.Sprint("size=", w.c.Size()))
	return strings.Join(parts, " ")
}

// merges enumerates all interleavings of the threads' op lists preserving program order.
func merges(threads [][]int, f func(order [][2]int)) {
	idx := make([]int, len(threads))
	var cur [][2]int
	var rec func()
	rec = func() {
		done := true
		for t := range threads {
			if idx[t] < len(threads[t]) {
				done = false
				cur = append(cur, [2]int{t, idx[t]})
				idx[t]++
				rec()
				idx[t]--
				cur = cur[:len(cur)-1]
			}
		}
		if done {
			f(cur)
		}
	}
	rec()
}

// s1Case explores one tuple of thread programs.
func s1Case(threads [][]int, bound, maxExecs int) *vlib.Result {
	res := &vlib.Result{}
	names := make([]string, len(threads))
	for t, ops := range threads {
		var n []string
		for _, o := range ops {
			n = append(n, cacheOps[o].name)
		}
		names[t] = strings.Join(n, ";")
	}
	id := strings.Join(names, " || ")
	// sequential reference: every linearisation on a fresh cache
	legal := map[string]bool{}
	merges(threads, func(order [][2]int) {
		w := newCacheWorld()
		out := make([][]string, len(threads))
		for t := range threads {
			out[t] = make([]string, len(threads[t]))
		}
		for _, st := range order {
			out[st[0]][st[1]] = cacheOps[threads[st[0]][st[1]]].run(w)
		}
		legal[fmt.Sprint(out)+" :: "+w.final()] = true
	})
	var w *cacheWorld
	var results [][]string
	mk := func() []func() {
		w = newCacheWorld()
		results = make([][]string, len(threads))
		var bodies []func()
		for t := range threads {
			t := t
			results[t] = make([]string, len(threads[t]))
			bodies = append(bodies, func() {
				for i, o := range threads[t] {
					results[t][i] = cacheOps[o].run(w)
				}
			})
		}
		return bodies
	}
	seenRace := map[string]bool{}
	outcomes := map[string]bool{}
	st := vsched.Explore(bound, 4000, maxExecs, mk, func(x *vsched.Sched) {
		res.Evals++
		res.Transitions += len(x.Points)
		for _, r := range x.Races {
			k := raceKey(r)
			if !seenRace[k] {
				seenRace[k] = true
				res.Violate("C17/S1/data-race/"+k, "threads [%s]: unsynchronised accesses: %s (schedule %v)", id, r, choices(x))
			}
		}
		if x.Deadlock {
			res.Violate("C17/S1/deadlock", "threads [%s]: deadlock under schedule %v", id, choices(x))
		}
		if x.Diverged || x.StepLimit {
			res.Violate("C17/S1/harness-divergence", "threads [%s]: replay diverged=%v steplimit=%v", id, x.Diverged, x.StepLimit)
		}
		for _, p := range x.Panics {
			res.Violate("C17/S1/panic", "threads [%s]: %s", id, p)
		}
		key := fmt.Sprint(results) + " :: " + w.final()
		outcomes[key] = true
		if !legal[key] && len(x.Panics) == 0 && !x.Deadlock {
			res.Violate("C17/S1/not-linearizable/"+strings.Join(sortedNames(threads), "+"), "threads [%s]: results %v and final state %q match no sequential order of the calls (schedule %v)", id, results, w.final(), choices(x))
		}
	})
	if st.Capped {
		res.Outcome("capped")
	}
	res.Nontrivial = res.Evals
	res.States = append(res.States, id)
	res.Outcome(fmt.Sprintf("distinct-outcomes=%d", min(len(outcomes), 5)))
	res.Sample = map[string]any{"threads": names, "executions": st.Execs, "max_points": st.MaxPoints, "distinct_outcomes": len(outcomes), "bound": bound}
	return res
}

func sortedNames(threads [][]int) []string {
	var n []string
	for _, ops := range threads {
		for _, o := range ops {
			n = append(n, cacheOps[o].name)
		}
	}
	sort.Strings(n)
	return n
}

var lineRE = regexp.MustCompile(`@\d+`)

// raceKey: the two field expressions without line numbers, order-independent.
func raceKey(r string) string {
	r = lineRE.ReplaceAllString(r, "")
	parts := strings.Split(r, " || ")
	for i := range parts {
		f := strings.Fields(parts[i])
		parts[i] = f[len(f)-1]
	}
	sort.Strings(parts)
	return strings.Join(parts, "~")
}

func choices(x *vsched.Sched) []int {
	c := make([]int, 0, len(x.Points))
	for _, p := range x.Points {
		c = append(c, p.Chosen)
	}
	// trim trailing zeros (default choices)
	for len(c) > 0 && c[len(c)-1] == 0 {
		c = c[:len(c)-1]
	}
	return c
}
