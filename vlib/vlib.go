// Package vlib is the shared runner of every /verif check: it enumerates the
// cases a property plan generates, executes every one of them on a worker pool,
// re-executes violating cases to prove they are deterministic, matches them
// against the committed known-findings file, prints KNOWN-FINDING / VIOLATION
// lines, writes replay artefacts and the evidence file.
package vlib

import (
	"encoding/json"
	"fmt"
	"os"
	"os/exec"
	"path/filepath"
	"runtime"
	"sort"
	"strings"
	"sync"
	"sync/atomic"
	"time"
)

// Violation is one property violation observed by one case.
type Violation struct {
	// Key is the canonical signature (scenario + input class / call site /
	// history shape); it is what known_findings.json is matched against.
	Key  string `json:"key"`
	What string `json:"what"`
}

// Result is what executing one case (or one batch of cases) observed.
type Result struct {
	Evals       int            // cases executed (0 is read as 1)
	Nontrivial  int            // how many of them were non-trivial by the plan's rule
	Transitions int            // model_checking: implementation steps taken
	States      []string       // model_checking: canonical state keys visited
	Outcomes    map[string]int // observed outcome classes (guards against vacuous runs)
	Violations  []Violation
	Sample      any // optional literal description of the case for evidence
	Skipped     int
}

func (r *Result) Outcome(o string) {
	if r.Outcomes == nil {
		r.Outcomes = map[string]int{}
	}
	r.Outcomes[o]++
}

func (r *Result) Violate(key, format string, a ...any) {
	r.Violations = append(r.Violations, Violation{Key: key, What: fmt.Sprintf(format, a...)})
}

// Case is one deterministic unit of work. ID must be unique within the plan and
// sufficient to regenerate the case (replay re-enumerates and runs only that ID).
type Case struct {
	ID  string
	Run func() *Result
}

// Plan describes one check run.
type Plan struct {
	Property string
	Level    string // exploration | fault_enumeration | model_checking
	Rule     string
	Bounds   map[string]any
	Assume   []string
	Gen      func(tier string, yield func(Case))
	Workers  int  // 0 = NumCPU
	Quiet    bool // discard what the code under test prints to os.Stdout while cases run
	Procs    int  // >0: shard cases over this many worker processes (isolates process-global state); each runs Workers goroutines (default 1)
	// RerunIntersect: a violating case is re-run as usual, but instead of demanding the identical key
	// set every time, the violations whose key came back in EVERY run are believed (FLAKY only when
	// none did). For checks whose cases depend on operating-system resource behaviour (C13: which of
	// several over-allocating inputs kills the worker first decides which siblings still run).
	RerunIntersect bool
	Exhaustive     bool // set false by Gen through Cap()
	Caps           []string
	Extra          map[string]any
	mu             sync.Mutex
}

// Cap records that an internal cap was hit; the run is then not exhaustive.
func (p *Plan) Cap(what string) {
	p.mu.Lock()
	p.Caps = append(p.Caps, what)
	p.Exhaustive = false
	p.mu.Unlock()
}

func (p *Plan) SetExtra(k string, v any) {
	p.mu.Lock()
	if p.Extra == nil {
		p.Extra = map[string]any{}
	}
	p.Extra[k] = v
	p.mu.Unlock()
}

type finding struct {
	Property string `json:"property"`
	Key      string `json:"key"`
	Status   string `json:"status"` // known | fixed
	Commit   string `json:"commit,omitempty"`
	What     string `json:"what"`
}

type findingsFile struct {
	Findings []finding `json:"findings"`
}

func verifDir() string {
	if d := os.Getenv("VERIF_DIR"); d != "" {
		return d
	}
	return "/verif"
}

// outDir: where evidence and replay files go. VERIF_OUT redirects them (used when
// checks run against deliberately broken trees, several at a time), so that
// /verif/evidence always describes the last run on the real tree.
func outDir() string {
	if d := os.Getenv("VERIF_OUT"); d != "" {
		return d
	}
	return verifDir()
}

func loadFindings() []finding {
	b, err := os.ReadFile(filepath.Join(verifDir(), "known_findings.json"))
	if err != nil {
		return nil
	}
	var f findingsFile
	if err := json.Unmarshal(b, &f); err != nil {
		fmt.Fprintf(os.Stderr, "HARNESS-ERROR: known_findings.json: %v\n", err)
		os.Exit(2)
	}
	return f.Findings
}

// keyMatches: a known-finding key matches a violation key exactly, or as a
// prefix when it ends in "*".
func keyMatches(pattern, key string) bool {
	if strings.HasSuffix(pattern, "*") {
		return strings.HasPrefix(key, strings.TrimSuffix(pattern, "*"))
	}
	return pattern == key
}

type violRec struct {
	CaseID string
	V      Violation
}

type shardOut struct {
	Cases, Evals, Nontriv, Transitions, Skipped int
	States                                      []string
	Outcomes                                    map[string]int
	Viols                                       []violRec
	Flaky                                       []string
	Samples                                     []any
	Caps                                        []string
	Bounds                                      map[string]any
}

// runShards re-executes this binary once per shard and collects the results.
func runShards(n int) []shardOut {
	dir, err := os.MkdirTemp(filepath.Join(verifDir(), ".build"), "shards-")
	if err != nil {
		fmt.Println("HARNESS-ERROR:", err)
		os.Exit(2)
	}
	defer os.RemoveAll(dir)
	outs := make([]shardOut, n)
	var wg sync.WaitGroup
	var failed atomic.Int32
	for i := 0; i < n; i++ {
		wg.Add(1)
		go func(i int) {
			defer wg.Done()
			of := filepath.Join(dir, fmt.Sprintf("shard%d.json", i))
			cmd := exec.Command(os.Args[0], os.Args[1:]...)
			cmd.Env = append(os.Environ(), fmt.Sprintf("VERIF_SHARD=%d/%d", i, n), "VERIF_SHARD_OUT="+of)
			cmd.Stderr = os.Stderr
			ob, err := cmd.Output()
			if err != nil {
				fmt.Printf("HARNESS-ERROR: shard %d failed: %v\n%s\n", i, err, tail(ob))
				failed.Add(1)
				return
			}
			b, err := os.ReadFile(of)
			if err != nil || json.Unmarshal(b, &outs[i]) != nil {
				fmt.Printf("HARNESS-ERROR: shard %d produced no result\n", i)
				failed.Add(1)
			}
		}(i)
	}
	wg.Wait()
	if failed.Load() > 0 {
		os.Exit(2)
	}
	return outs
}

func tail(b []byte) string {
	if len(b) > 2000 {
		b = b[len(b)-2000:]
	}
	return string(b)
}

// Main runs the plan and exits with the check's status.
func Main(p *Plan, tier string, replayID string, seed int64) {
	start := time.Now()
	p.Exhaustive = true
	workers := p.Workers
	if workers <= 0 {
		workers = runtime.NumCPU()
		if p.Procs > 0 {
			workers = 1
		}
	}
	if replayID != "" {
		workers = 1
	}

	var (
		mu          sync.Mutex
		evals       int
		nontriv     int
		transitions int
		skipped     int
		states      = map[string]struct{}{}
		outcomes    = map[string]int{}
		viols       []violRec
		samples     []any
		caseCount   int
		flaky       []string
	)
	ch := make(chan Case, 256)
	var wg sync.WaitGroup
	for w := 0; w < workers; w++ {
		wg.Add(1)
		go func() {
			defer wg.Done()
			for c := range ch {
				r := runCase(c)
				var confirmed []Violation
				if len(r.Violations) > 0 {
					// Re-execute twice more: a violation is only believed when
					// the same keys come back every time.
					k0 := violKeys(r)
					ok := true
					other := ""
					common := map[string]bool{}
					for _, v := range r.Violations {
						common[v.Key] = true
					}
					for i := 0; i < 2; i++ {
						r2 := runCase(c)
						if k2 := violKeys(r2); k2 != k0 {
							ok = false
							other = k2
						}
						again := map[string]bool{}
						for _, v := range r2.Violations {
							again[v.Key] = true
						}
						for k := range common {
							if !again[k] {
								delete(common, k)
							}
						}
					}
					if !ok && p.RerunIntersect && len(common) > 0 {
						for _, v := range r.Violations {
							if common[v.Key] {
								confirmed = append(confirmed, v)
							}
						}
					} else if ok {
						confirmed = r.Violations
					} else {
						mu.Lock()
						flaky = append(flaky, c.ID+" :: first run ["+k0+"] re-run ["+other+"]")
						mu.Unlock()
					}
				}
				mu.Lock()
				caseCount++
				if r.Evals == 0 {
					r.Evals = 1
				}
				evals += r.Evals
				nontriv += r.Nontrivial
				transitions += r.Transitions
				skipped += r.Skipped
				for _, s := range r.States {
					states[s] = struct{}{}
				}
				for k, v := range r.Outcomes {
					outcomes[k] += v
				}
				for _, v := range confirmed {
					viols = append(viols, violRec{c.ID, v})
				}
				if r.Sample != nil && (len(samples) < 6 || (replayID != "")) {
					// spread samples: keep the first few and then every 2^k-th
					samples = append(samples, r.Sample)
				} else if r.Sample != nil && caseCount&(caseCount-1) == 0 && len(samples) < 12 {
					samples = append(samples, r.Sample)
				}
				mu.Unlock()
			}
		}()
	}
	realStdout := os.Stdout
	if p.Quiet {
		if dn, err := os.OpenFile(os.DevNull, os.O_WRONLY, 0); err == nil {
			os.Stdout = dn
		}
	}
	found := false
	shardI, shardN := -1, 0
	if sh := os.Getenv("VERIF_SHARD"); sh != "" {
		fmt.Sscanf(sh, "%d/%d", &shardI, &shardN)
	}
	var merged []shardOut
	if p.Procs > 0 && shardN == 0 && replayID == "" {
		// parent of a process-sharded run: nothing is executed here
		close(ch)
		wg.Wait()
		merged = runShards(p.Procs)
		found = true
	} else {
		idx := 0
		p.Gen(tier, func(c Case) {
			if replayID != "" {
				if c.ID != replayID {
					return
				}
				found = true
			}
			idx++
			if shardN > 0 && (idx-1)%shardN != shardI {
				return
			}
			ch <- c
		})
		close(ch)
		wg.Wait()
	}
	os.Stdout = realStdout
	for _, m := range merged {
		caseCount += m.Cases
		evals += m.Evals
		nontriv += m.Nontriv
		transitions += m.Transitions
		skipped += m.Skipped
		for _, st := range m.States {
			states[st] = struct{}{}
		}
		for k, v := range m.Outcomes {
			outcomes[k] += v
		}
		viols = append(viols, m.Viols...)
		flaky = append(flaky, m.Flaky...)
		if len(samples) < 12 {
			samples = append(samples, m.Samples...)
		}
		for _, c := range m.Caps {
			p.Cap(c)
		}
		if p.Bounds == nil {
			p.Bounds = m.Bounds
		}
	}
	if shardN > 0 {
		st := make([]string, 0, len(states))
		for k := range states {
			st = append(st, k)
		}
		if len(samples) > 3 {
			samples = samples[:3]
		}
		out := shardOut{Cases: caseCount, Evals: evals, Nontriv: nontriv, Transitions: transitions, Skipped: skipped, States: st, Outcomes: outcomes, Viols: viols, Flaky: flaky, Samples: samples, Caps: p.Caps, Bounds: p.Bounds}
		b, _ := json.Marshal(out)
		if err := os.WriteFile(os.Getenv("VERIF_SHARD_OUT"), b, 0o644); err != nil {
			fmt.Println("HARNESS-ERROR: shard output:", err)
			os.Exit(2)
		}
		os.Exit(0)
	}

	if replayID != "" && !found {
		fmt.Printf("HARNESS-ERROR: replay case %q not generated by property %s tier %s\n", replayID, p.Property, tier)
		os.Exit(2)
	}

	// Classify violations against the known-findings file.
	kf := loadFindings()
	sort.Slice(viols, func(i, j int) bool {
		if viols[i].V.Key != viols[j].V.Key {
			return viols[i].V.Key < viols[j].V.Key
		}
		return viols[i].CaseID < viols[j].CaseID
	})
	type group struct {
		key   string
		first violRec
		n     int
	}
	var groups []*group
	for _, v := range viols {
		if len(groups) > 0 && groups[len(groups)-1].key == v.V.Key {
			groups[len(groups)-1].n++
			continue
		}
		groups = append(groups, &group{v.V.Key, v, 1})
	}
	nViol := 0
	nKnown := 0
	knownHits := map[int][2]int{} // finding index -> (distinct keys, cases)
	for _, g := range groups {
		known := false
		for fi, f := range kf {
			if f.Property == p.Property && f.Status == "known" && keyMatches(f.Key, g.key) {
				known = true
				h := knownHits[fi]
				knownHits[fi] = [2]int{h[0] + 1, h[1] + g.n}
				break
			}
		}
		if known {
			nKnown++
			continue
		}
		nViol++
		rp := filepath.Join(outDir(), "replays", p.Property)
		_ = os.MkdirAll(rp, 0o755)
		file := filepath.Join(rp, sanitize(g.key)+".json")
		b, _ := json.MarshalIndent(map[string]any{
			"property": p.Property, "tier": tier, "case_id": g.first.CaseID, "key": g.key,
			"what": g.first.V.What, "cases_with_this_key": g.n,
			"replay_cmd": fmt.Sprintf("./check %s --replay %s", p.Property, file),
		}, "", " ")
		_ = os.WriteFile(file, b, 0o644)
		fmt.Printf("VIOLATION property=%s replay=%s\n", p.Property, file)
		fmt.Printf("  key=%s cases=%d first=%s\n  %s\n", g.key, g.n, g.first.CaseID, g.first.V.What)
	}
	for fi, f := range kf {
		if h, ok := knownHits[fi]; ok {
			fmt.Printf("KNOWN-FINDING: property=%s key=%s keys=%d cases=%d %s\n", p.Property, f.Key, h[0], h[1], f.What)
		}
	}
	for _, f := range flaky {
		fmt.Printf("FLAKY-HARNESS property=%s %s\n", p.Property, f)
	}

	// Evidence.
	cov := map[string]any{
		"evaluations":         evals,
		"distinct_nontrivial": nontriv,
		"rule":                p.Rule,
		"samples":             samples,
		"exhaustive":          p.Exhaustive,
		"outcomes":            outcomes,
		"bounds":              p.Bounds,
		"caps_hit":            p.Caps,
		"skipped":             skipped,
		"cases":               caseCount,
		"known_findings_seen": nKnown,
	}
	if p.Level == "model_checking" {
		cov["states"] = len(states)
		cov["transitions"] = transitions
		cov["traces_validated_against_impl"] = evals
	}
	for k, v := range p.Extra {
		cov[k] = v
	}
	ev := map[string]any{
		"property_id": p.Property,
		"tier":        tier,
		"seed":        seed,
		"level":       p.Level,
		"coverage":    cov,
		"assumptions": p.Assume,
		"wall_s":      time.Since(start).Seconds(),
		"violations":  nViol,
	}
	if replayID == "" {
		_ = os.MkdirAll(filepath.Join(outDir(), "evidence"), 0o755)
		b, _ := json.MarshalIndent(ev, "", " ")
		if err := os.WriteFile(filepath.Join(outDir(), "evidence", p.Property+".json"), b, 0o644); err != nil {
			fmt.Printf("HARNESS-ERROR: writing evidence: %v\n", err)
			os.Exit(2)
		}
	}
	ocs := make([]string, 0, len(outcomes))
	for k, v := range outcomes {
		ocs = append(ocs, fmt.Sprintf("%s=%d", k, v))
	}
	sort.Strings(ocs)
	fmt.Printf("SUMMARY property=%s tier=%s cases=%d evaluations=%d nontrivial=%d states=%d transitions=%d exhaustive=%v violations=%d known=%d wall=%.1fs\n",
		p.Property, tier, caseCount, evals, nontriv, len(states), transitions, p.Exhaustive, nViol, nKnown, time.Since(start).Seconds())
	fmt.Printf("OUTCOMES %s\n", strings.Join(ocs, " "))
	if len(p.Caps) > 0 {
		fmt.Printf("CAPS %s\n", strings.Join(p.Caps, "; "))
	}
	if nViol > 0 {
		os.Exit(1)
	}
	if len(flaky) > 0 {
		os.Exit(2)
	}
	os.Exit(0)
}

func violKeys(r *Result) string {
	seen := map[string]bool{}
	ks := make([]string, 0, len(r.Violations))
	for _, v := range r.Violations {
		if !seen[v.Key] {
			seen[v.Key] = true
			ks = append(ks, v.Key)
		}
	}
	sort.Strings(ks)
	return strings.Join(ks, "|")
}

// runCase executes one case; a panic escaping the code under test is itself
// reported as a violation of that case (key "panic").
func runCase(c Case) (r *Result) {
	defer func() {
		if e := recover(); e != nil {
			buf := make([]byte, 4096)
			n := runtime.Stack(buf, false)
			r = &Result{Evals: 1}
			r.Violate("panic", "case %s panicked: %v\n%s", c.ID, e, buf[:n])
		}
	}()
	r = c.Run()
	if r == nil {
		r = &Result{}
	}
	return r
}

func sanitize(s string) string {
	var b strings.Builder
	for _, c := range s {
		switch {
		case c >= 'a' && c <= 'z', c >= 'A' && c <= 'Z', c >= '0' && c <= '9', c == '-', c == '_', c == '.':
			b.WriteRune(c)
		default:
			b.WriteByte('_')
		}
	}
	out := b.String()
	if len(out) > 120 {
		out = out[:120]
	}
	return out
}
