// verif-instr: source-to-source instrumenter for the C17 (E-SCHED) check.
//
//	verif-instr <in.go> <out.go> <fields> [import=shimpath ...]
//
// It rewrites the named imports to their scheduler-aware shims (e.g.
// sync=github.com/bbockelm/cedar/verifshim/vsync) and inserts a
// vsched.Access(&x.f, isWrite, "x.f@line") probe before every statement that
// touches one of the configured struct fields ("map:f" marks a map-typed field:
// indexing on the left-hand side / delete() count as writes to the map). The
// output is printed WITHOUT comments (go/printer otherwise floats comments into
// the inserted calls). It fails loudly if an import it was asked to rewrite is
// missing, so a stale assumption about the file never goes unnoticed.
package main

import (
	"bytes"
	"fmt"
	"go/ast"
	"go/format"
	"go/parser"
	"go/token"
	"os"
	"strconv"
	"strings"
)

var fileTag string
var fields = map[string]bool{}
var mapFields = map[string]bool{}

func main() {
	in, out := os.Args[1], os.Args[2]
	fileTag = in[strings.LastIndex(in, "/")+1:]
	for _, f := range strings.Split(os.Args[3], ",") {
		if f == "" || f == "-" {
			continue
		}
		if strings.HasPrefix(f, "map:") {
			mapFields[f[4:]] = true
			f = f[4:]
		}
		fields[f] = true
	}
	fset := token.NewFileSet()
	file, err := parser.ParseFile(fset, in, nil, 0)
	if err != nil {
		fmt.Fprintln(os.Stderr, "verif-instr:", err)
		os.Exit(2)
	}
	for _, rw := range os.Args[4:] {
		kv := strings.SplitN(rw, "=", 2)
		found := false
		for _, imp := range file.Imports {
			if imp.Path.Value == strconv.Quote(kv[0]) {
				imp.Path.Value = strconv.Quote(kv[1])
				name := kv[0]
				if i := strings.LastIndex(name, "/"); i >= 0 {
					name = name[i+1:]
				}
				imp.Name = ast.NewIdent(name)
				found = true
			}
		}
		if !found {
			fmt.Fprintf(os.Stderr, "verif-instr: %s does not import %q (anchor missing)\n", in, kv[0])
			os.Exit(2)
		}
	}
	// add imports
	addImport(file, "vsched", "github.com/bbockelm/cedar/verifshim/vsched")
	addImport(file, "unsafe", "unsafe")
	for _, d := range file.Decls {
		if fd, ok := d.(*ast.FuncDecl); ok && fd.Body != nil {
			instrBlock(fset, fd.Body)
		}
	}
	var buf bytes.Buffer
	if err := format.Node(&buf, fset, file); err != nil {
		panic(err)
	}
	// keep unsafe/vsched referenced even if no probe was inserted
	buf.WriteString("\nvar _ = unsafe.Pointer(nil)\nvar _ = vsched.Active\n")
	os.WriteFile(out, buf.Bytes(), 0644)
}

func addImport(f *ast.File, name, path string) {
	spec := &ast.ImportSpec{Name: ast.NewIdent(name), Path: &ast.BasicLit{Kind: token.STRING, Value: strconv.Quote(path)}}
	gd := &ast.GenDecl{Tok: token.IMPORT, Specs: []ast.Spec{spec}}
	f.Decls = append([]ast.Decl{gd}, f.Decls...)
}

type access struct {
	expr  ast.Expr // x.f
	write bool
}

// collect accesses in the "header" of stmt (excluding nested blocks / func lits).
func collect(n ast.Node, write bool, out *[]access) {
	switch e := n.(type) {
	case nil:
		return
	case *ast.FuncLit:
		return // body instrumented separately
	case *ast.BlockStmt:
		return
	case *ast.SelectorExpr:
		if fields[e.Sel.Name] && pure(e.X) {
			*out = append(*out, access{e, write})
		}
		collect(e.X, false, out)
		return
	case *ast.IndexExpr:
		// m[k]: write to map content if on LHS and field is a map field
		if se, ok := e.X.(*ast.SelectorExpr); ok && mapFields[se.Sel.Name] {
			collect(e.X, write, out)
		} else {
			collect(e.X, false, out)
		}
		collect(e.Index, false, out)
		return
	case *ast.CallExpr:
		if id, ok := e.Fun.(*ast.Ident); ok && id.Name == "delete" && len(e.Args) == 2 {
			collect(e.Args[0], true, out)
			collect(e.Args[1], false, out)
			return
		}
		collect(e.Fun, false, out)
		for _, a := range e.Args {
			collect(a, false, out)
		}
		return
	case *ast.UnaryExpr:
		collect(e.X, e.Op == token.AND || write, out)
		return
	}
	// generic traversal of children (one level) via ast.Inspect with depth control
	first := true
	ast.Inspect(n, func(c ast.Node) bool {
		if first {
			first = false
			return true
		}
		if c == nil {
			return false
		}
		collect(c, false, out)
		return false
	})
}

func pure(e ast.Expr) bool {
	switch x := e.(type) {
	case *ast.Ident:
		return true
	case *ast.SelectorExpr:
		return pure(x.X)
	case *ast.ParenExpr:
		return pure(x.X)
	case *ast.StarExpr:
		return pure(x.X)
	}
	return false
}

func stmtAccesses(s ast.Stmt) []access {
	var out []access
	switch st := s.(type) {
	case *ast.AssignStmt:
		for _, l := range st.Lhs {
			collect(l, true, &out)
		}
		for _, r := range st.Rhs {
			collect(r, false, &out)
		}
	case *ast.IncDecStmt:
		collect(st.X, true, &out)
	case *ast.ExprStmt:
		collect(st.X, false, &out)
	case *ast.ReturnStmt:
		for _, r := range st.Results {
			collect(r, false, &out)
		}
	case *ast.IfStmt:
		if st.Init != nil {
			out = append(out, stmtAccesses(st.Init)...)
		}
		collect(st.Cond, false, &out)
	case *ast.ForStmt:
		if st.Init != nil {
			out = append(out, stmtAccesses(st.Init)...)
		}
		collect(st.Cond, false, &out)
	case *ast.RangeStmt:
		collect(st.X, false, &out)
	case *ast.SwitchStmt:
		if st.Init != nil {
			out = append(out, stmtAccesses(st.Init)...)
		}
		collect(st.Tag, false, &out)
	case *ast.DeferStmt, *ast.GoStmt:
		// args evaluated now; keep simple: none
	case *ast.DeclStmt:
		ast.Inspect(st, func(c ast.Node) bool {
			if vs, ok := c.(*ast.ValueSpec); ok {
				for _, v := range vs.Values {
					collect(v, false, &out)
				}
			}
			return true
		})
	}
	return out
}

func probe(fset *token.FileSet, a access) ast.Stmt {
	var b bytes.Buffer
	format.Node(&b, fset, a.expr)
	pos := fset.Position(a.expr.Pos())
	desc := fmt.Sprintf("%s:%s@%d", fileTag, b.String(), pos.Line)
	return &ast.ExprStmt{X: &ast.CallExpr{
		Fun: &ast.SelectorExpr{X: ast.NewIdent("vsched"), Sel: ast.NewIdent("Access")},
		Args: []ast.Expr{
			&ast.CallExpr{Fun: &ast.SelectorExpr{X: ast.NewIdent("unsafe"), Sel: ast.NewIdent("Pointer")},
				Args: []ast.Expr{&ast.UnaryExpr{Op: token.AND, X: a.expr}}},
			ast.NewIdent(strconv.FormatBool(a.write)),
			&ast.BasicLit{Kind: token.STRING, Value: strconv.Quote(desc)},
		}}}
}

// detRange rewrites `for k, v := range x.m { body }` over a configured map field
// into an iteration over the map's keys in sorted order (map iteration order is
// random in Go; under the controlled scheduler it must be owned, otherwise the
// sequence of scheduling points inside the loop differs from run to run and a
// recorded schedule cannot be replayed):
//
//	for _, vsK := range vsched.SortedKeys(x.m) { v, vsOK := x.m[vsK]; if !vsOK { continue }; k := vsK; body }
func detRange(rs *ast.RangeStmt) {
	se, ok := rs.X.(*ast.SelectorExpr)
	if !ok || !mapFields[se.Sel.Name] || rs.Tok != token.DEFINE {
		return
	}
	kID, vID := ast.NewIdent("_"), ast.NewIdent("_")
	if id, ok := rs.Key.(*ast.Ident); ok && id != nil {
		kID = id
	}
	if rs.Value != nil {
		if id, ok := rs.Value.(*ast.Ident); ok {
			vID = id
		}
	}
	var pre []ast.Stmt
	pre = append(pre, &ast.AssignStmt{Lhs: []ast.Expr{vID, ast.NewIdent("vsOK")}, Tok: token.DEFINE,
		Rhs: []ast.Expr{&ast.IndexExpr{X: rs.X, Index: ast.NewIdent("vsK")}}})
	pre = append(pre, &ast.IfStmt{Cond: &ast.UnaryExpr{Op: token.NOT, X: ast.NewIdent("vsOK")}, Body: &ast.BlockStmt{List: []ast.Stmt{&ast.BranchStmt{Tok: token.CONTINUE}}}})
	if vID.Name == "_" {
		pre[0] = &ast.AssignStmt{Lhs: []ast.Expr{ast.NewIdent("_"), ast.NewIdent("vsOK")}, Tok: token.DEFINE,
			Rhs: []ast.Expr{&ast.IndexExpr{X: rs.X, Index: ast.NewIdent("vsK")}}}
	}
	if kID.Name != "_" {
		pre = append(pre, &ast.AssignStmt{Lhs: []ast.Expr{kID}, Tok: token.DEFINE, Rhs: []ast.Expr{ast.NewIdent("vsK")}})
		pre = append(pre, &ast.AssignStmt{Lhs: []ast.Expr{ast.NewIdent("_")}, Tok: token.ASSIGN, Rhs: []ast.Expr{kID}})
	}
	rs.Body.List = append(pre, rs.Body.List...)
	rs.Key = ast.NewIdent("_")
	rs.Value = ast.NewIdent("vsK")
	rs.X = &ast.CallExpr{Fun: &ast.SelectorExpr{X: ast.NewIdent("vsched"), Sel: ast.NewIdent("SortedKeys")}, Args: []ast.Expr{rs.X}}
}

func instrBlock(fset *token.FileSet, b *ast.BlockStmt) {
	var out []ast.Stmt
	for _, s := range b.List {
		if rs, ok := s.(*ast.RangeStmt); ok {
			// probes for the map read are computed before the rewrite
			for _, a := range stmtAccesses(s) {
				out = append(out, probe(fset, a))
			}
			detRange(rs)
			out = append(out, s)
			instrNested(fset, s)
			continue
		}
		for _, a := range stmtAccesses(s) {
			out = append(out, probe(fset, a))
		}
		out = append(out, s)
		instrNested(fset, s)
	}
	b.List = out
}

func instrNested(fset *token.FileSet, s ast.Stmt) {
	switch st := s.(type) {
	case *ast.BlockStmt:
		instrBlock(fset, st)
	case *ast.IfStmt:
		instrBlock(fset, st.Body)
		if st.Else != nil {
			if ei, ok := st.Else.(*ast.IfStmt); ok {
				blk := &ast.BlockStmt{List: []ast.Stmt{ei}}
				st.Else = blk
				instrBlock(fset, blk)
			} else {
				instrNested(fset, st.Else)
			}
		}
	case *ast.ForStmt:
		instrBlock(fset, st.Body)
	case *ast.RangeStmt:
		instrBlock(fset, st.Body)
	case *ast.SwitchStmt:
		for _, c := range st.Body.List {
			cc := c.(*ast.CaseClause)
			blk := &ast.BlockStmt{List: cc.Body}
			instrBlock(fset, blk)
			cc.Body = blk.List
		}
	}
	// function literals anywhere in the statement
	ast.Inspect(s, func(c ast.Node) bool {
		if fl, ok := c.(*ast.FuncLit); ok {
			instrBlock(fset, fl.Body)
			return false
		}
		return true
	})
}
