// vharness runs one property check: vharness <ID> <quick|thorough> [--replay file]
package main

import (
	"encoding/json"
	"fmt"
	"os"
	"strconv"

	"verif/props"
	"verif/vlib"
)

func main() {
	if len(os.Args) < 3 {
		fmt.Println("usage: vharness <ID> <quick|thorough> [--replay file]")
		os.Exit(2)
	}
	if spec := os.Getenv("VERIF_C13_WORKER"); spec != "" {
		props.C13Worker(spec)
		return
	}
	if os.Getenv("VERIF_C20_IDWORKER") != "" {
		props.C20IDWorker()
		return
	}
	id, tier := os.Args[1], os.Args[2]
	replay := ""
	for i := 3; i < len(os.Args); i++ {
		if os.Args[i] == "--replay" && i+1 < len(os.Args) {
			b, err := os.ReadFile(os.Args[i+1])
			if err != nil {
				fmt.Println("HARNESS-ERROR:", err)
				os.Exit(2)
			}
			var r struct {
				CaseID string `json:"case_id"`
				Tier   string `json:"tier"`
			}
			if err := json.Unmarshal(b, &r); err != nil || r.CaseID == "" {
				fmt.Println("HARNESS-ERROR: bad replay file")
				os.Exit(2)
			}
			replay = r.CaseID
			if r.Tier != "" {
				tier = r.Tier
			}
			i++
		}
		if os.Args[i] == "--case" && i+1 < len(os.Args) {
			replay = os.Args[i+1]
			i++
		}
	}
	seed, _ := strconv.ParseInt(os.Getenv("VERIF_SEED"), 10, 64)
	mk, ok := props.Registry[id]
	if !ok {
		fmt.Printf("HARNESS-ERROR: no check for property %s\n", id)
		os.Exit(2)
	}
	vlib.Main(mk(), tier, replay, seed)
}
