// vharness17 runs the C17 check (built with the instrumentation overlay).
package main

import (
	"encoding/json"
	"fmt"
	"os"
	"strconv"

	"verif/props17"
	"verif/vlib"
)

func main() {
	tier := "quick"
	if len(os.Args) > 2 {
		tier = os.Args[2]
	}
	replay := ""
	for i := 3; i < len(os.Args); i++ {
		if os.Args[i] == "--replay" && i+1 < len(os.Args) {
			b, err := os.ReadFile(os.Args[i+1])
			var r struct {
				CaseID string `json:"case_id"`
				Tier   string `json:"tier"`
			}
			if err != nil || json.Unmarshal(b, &r) != nil || r.CaseID == "" {
				fmt.Println("HARNESS-ERROR: bad replay file")
				os.Exit(2)
			}
			replay, tier = r.CaseID, r.Tier
			i++
		} else if os.Args[i] == "--case" && i+1 < len(os.Args) {
			replay = os.Args[i+1]
			i++
		}
	}
	seed, _ := strconv.ParseInt(os.Getenv("VERIF_SEED"), 10, 64)
	vlib.Main(props17.C17Plan(), tier, replay, seed)
}
