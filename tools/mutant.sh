#!/bin/bash
# tools/mutant.sh <patch> <ID> [<ID>...] — apply a property-breaking patch to /repo,
# run the quick checks named, always revert. Prints one line per check.
set -u
P=$(readlink -f "$1"); shift
cd /repo || exit 2
if ! git diff --quiet; then echo "/repo has uncommitted changes"; exit 2; fi
git apply "$P" || { echo "patch does not apply: $P"; exit 2; }
for id in "$@"; do
  out=$(/verif/check $id ${TIER:-quick} 2>&1); rc=$?
  nv=$(echo "$out" | grep -c '^VIOLATION')
  echo "mutant=$(basename $P) check=$id exit=$rc violations=$nv :: $(echo "$out" | grep -m1 '^  key' )"
done
git -C /repo checkout -- . ; git -C /repo clean -fdq
# restore evidence of the unchanged tree is the caller's job (rerun the check)
