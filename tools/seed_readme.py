#!/usr/bin/env python3
# regenerates seeded/README.md from seeded/*/meta.json
import json, glob
readme=["# Seeded changes\n","Property-breaking changes to bbockelm/cedar written by fresh sub-agents that saw only the property text and a scratch worktree (nothing from /verif). Each was confirmed in a scratch worktree by tools/seed_verify.sh: builds, the whole existing suite passes with it, the demonstration fails with it and passes without it. None is committed to /repo. To run the checks against one: `tools/mutant.sh seeded/<id>/patch.diff <ID>`.\n","| id | property | what it changes | needs | caught by (first violation key) | missed at first? |","|---|---|---|---|---|---|"]
for p in sorted(glob.glob('seeded/*/meta.json')):
    m=json.load(open(p)); sid=p.split('/')[1]
    readme.append(f"| {sid} | {m['property']} | {m['breaks']} | {m['needs_to_manifest']} | `{m['checks_run']['first_violation_key']}` | {'yes - '+m['strengthening'] if m['initially_missed'] else 'no'} |")
open('seeded/README.md','w').write("\n".join(readme)+"\n")
