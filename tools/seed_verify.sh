#!/bin/bash
# tools/seed_verify.sh <ID-label> <patch> <demo-file> <dir-in-repo-for-demo> <go-test-package> [-run pattern]
# Confirms an independently written property-breaking change in a scratch worktree:
#  (BASE=<commit> checks against that commit instead of HEAD.)
#  (1) builds, (2) existing suite passes with it, (3) demo FAILS with it, (4) demo PASSES without it.
set -u
LABEL=$1; PATCH=$(readlink -f $2); DEMO=$(readlink -f $3); DDIR=$4; PKG=$5; shift 5
export GOFLAGS=-mod=mod GOPROXY=off; unset GOSUMDB
WT=/tmp/seedverify-$LABEL
git -C /repo worktree remove --force $WT 2>/dev/null
git -C /repo worktree add -q --detach $WT ${BASE:-HEAD} || exit 2
cd $WT
if ! git apply $PATCH; then echo "RESULT $LABEL patch-does-not-apply"; git -C /repo worktree remove --force $WT; exit 1; fi
if ! go build ./... 2>/tmp/sv-$LABEL.err; then echo "RESULT $LABEL build-fails"; git -C /repo worktree remove --force $WT; exit 1; fi
go test -vet=off -count=1 ./... > /tmp/sv-$LABEL.suite 2>&1; SUITE=$?
mkdir -p $DDIR; cp $DEMO $DDIR/
go test -vet=off -count=1 "$@" $PKG > /tmp/sv-$LABEL.with 2>&1; WITH=$?
git apply -R $PATCH
go test -vet=off -count=1 "$@" $PKG > /tmp/sv-$LABEL.without 2>&1; WITHOUT=$?
echo "RESULT $LABEL suite_exit=$SUITE demo_with_change_exit=$WITH demo_without_change_exit=$WITHOUT"
cd /; git -C /repo worktree remove --force $WT
