#!/usr/bin/env python3
"""Regenerates /verif/MANIFEST.json from the table below (single source of truth)."""
import json, os
V = os.path.dirname(os.path.dirname(os.path.abspath(__file__)))
ALL = ["C%02d" % i for i in range(1, 21)]
# id -> (category, technique, engine, text, note, design_ref)
CHECKS = {
 "C01": ("exploration", "bounded exhaustive enumeration of write/frame/flush compositions and threshold sizes on the real stream + typed layer, judged against the sent list and an independent frame parser",
         "E-ENUM", "Every composition of every message length <= 6 (quick) / 8 (thorough) into writes, frames and flushes, for 6 sender kinds x 7 receive APIs x {plain, AES-GCM} x {first, later frame}, short message sequences, and all sizes within 34 bytes of 0 / 4 KiB / 16 KiB / 1 MiB / 2 MiB are executed on the real code; any accepted-but-not-delivered, altered, re-bounded or typed-layer-rejected value is a violation.",
         "Sizes outside the enumerated bands and compositions of messages longer than the bound are not covered; AES-GCM from the Go standard library is trusted.", "DESIGN.md §3 C01"),
 "C02": ("fault_enumeration", "exhaustive single-fault (and pairwise frame-fault) enumeration over recorded AES-GCM transcripts replayed into the real receiver; prefix oracle against the sent list",
         "E-FAULT", "Every bit of every header/IV/ciphertext/tag, every truncation point, every frame drop/dup/swap/replay, length-field edits, forged frames (7 lengths x 5 end flags x 2 bodies) and cross-direction splices at every position, in both directions and through 3 receive APIs, are each fed to a fresh keyed real receiver; anything delivered that is not a prefix of what was sent, or delivered past the first affected message, or no error at all, is a violation. Thorough adds a 5000-byte message and all ordered pairs of frame-level faults.",
         "Transcript shapes are fixed (3-frame, empty, 2-frame, 1-frame message); streams are keyed after a cleartext preamble as in every real handshake; GCM primitive trusted.", "DESIGN.md §3 C02"),
 "C12": ("model_checking", "explicit enumeration of all send histories up to a depth on two real streams; every emitted frame opened by an independent reference decryptor, reference-built frames replayed into the real receiver",
         "E-BFS", "All histories of length <= 4 (quick) / 5 (thorough) over 11 send/secret/toggle operations x 4 cleartext-prefix shapes run on fresh real streams; every protected frame must open under the independent implementation of the documented format (nonce = base IV word0 + counter, IV once, header AAD, digests on the first frame with the all-zero rule), nonces and base IVs must never repeat, the real receiver must accept reference-built frames, and the counter edge (imported state near 2^32) must refuse exactly at the limit.",
         "Reference decryptor is written from the property text; IV freshness judged by distinctness over the ~1e5 sessions of a run.", "DESIGN.md §3 C12"),
 "C14": ("exploration", "bounded exhaustive enumeration of boundary values x every frame cut position, real encoder vs independent encoder and reference-framed payload vs real decoder",
         "E-ENUM", "Every boundary integer through every width wrapper, all chars, a structured catalogue of doubles (all exponents in thorough), all short UTF-8 strings, boundary-length strings and all sequences <= 3 of representative values, in both modes: emitted bytes must equal the independent encoder's, and the reference payload cut at every position (every pair when <= 40 bytes) must decode to the original.",
         "Doubles compared to 2^-30 relative; values outside the catalogue not covered.", "DESIGN.md §3 C14"),
 "C08": ("exploration", "bounded exhaustive enumeration of value texts (all strings <= L over the literal alphabet) and of grammar-generated ads on the real codec, judged against the full ClassAd parser",
         "E-ENUM", "Decode side: every string of length <= 5 (quick) / 6 (thorough) over a 17-symbol literal alphabet is put on the wire as an attribute value and read by the real decoder; it must agree with the full parser (same structure or same defined value), follow the old-style lone-string rule, or be rejected. Encode side: every expression of a bounded grammar is sent by the real PutClassAd (3 stream states, single/multi-frame, with/without type names, with a private attribute under opt-in) and read by GetClassAd, GetClassAdRaw+ParseOld and SkipClassAdRaw, each of which must consume exactly the ad (sentinel) and rebuild what the parser reads from the rendered text.",
         "The PelicanPlatform classad parser is the reference ('full parser' of the statement); texts outside the alphabet / beyond the grammar depth are not covered.", "DESIGN.md §3 C08"),
 "C09": ("exploration", "full-product enumeration of private-name case variants x option bits x whitelists x peer versions x stream states on the real serialiser, canary search over the wire and its independent decryption",
         "E-ENUM", "Every case variant of the private names/prefix x all 64 option sets x 4 whitelist shapes x peer versions around 9.9.0 x {no key, encrypting, keyed-not-encrypting}: the wire bytes and their reference decryption are searched for the private name and a unique canary; without opt-in (or for old peers, reserved-prefix names) nothing may appear; on a keyed-not-encrypting stream the secret may appear only inside frames that open under the key; the real receiver must rebuild the filtered ad and stay framed.",
         "Canary search is textual; reference decryption via refcodec; quick uses 4 of the 6 peer versions.", "DESIGN.md §3 C09"),
 "C15": ("model_checking", "explicit enumeration of all operation histories up to a depth on two real streams with hand-offs, reference model of 'established and clean', reference decryptor watching nonce continuity",
         "E-BFS", "All histories of length <= 5 (quick) / 7 (thorough) over 10 operations (messages each way, begin/finish partial send and receive, hand-off of either end) run on fresh real streams; in every state export is attempted on both ends and may succeed only when the reference model says established in both directions with no partial message; all traffic after any chain of hand-offs must round-trip and open under the reference decryptor with strictly continuing nonces; every truncation, wrong magic and wrong version of a blob must be rejected.",
         "Conservative refusals are recorded, not flagged; corruption of key/IV/counter bytes inside a blob is outside the statement.", "DESIGN.md §3 C15"),
 "C03": ("model_checking", "exhaustive enumeration of (role, own policy, method list, scripted-peer deviation) on the real endpoint against an independent scripted peer that logs what ran on the wire",
         "E-ENUM+scripted-peer", "The real endpoint in both roles x its own 4x4 policy (x Integrity in thorough) x every non-empty ordered subset of {CLAIMTOBE, TOKEN} x a catalogue of 15 server-side and 12 client-side peer deviations (answers NO/YES against the table, ECDH key omitted/truncated/random/not base64, no common cipher, unoffered/several/zero method bits, DENIED, post-auth ad in clear, bitmask outside the list or skipped). If the endpoint returns success: REQUIRED authentication implies the peer logged a completed exchange of a listed method; REQUIRED encryption/integrity implies an encrypted stream whose next application bytes are invisible on the wire and open under the agreed key; reported flags and method equal what ran.",
         "The scripted peer (props/peer.go) is an independent implementation on refcodec framing and speaks CLAIMTOBE only; resumed handshakes against a changed policy are covered by C06.", "DESIGN.md §3 C03"),
 "C10": ("model_checking", "exhaustive enumeration of the 4^4 policy matrix x method-list shapes x cipher lists x command on two real endpoints, judged by an independent decision table and a passive wire recorder",
         "E-ENUM", "Every cell of the (client auth, server auth, client enc, server enc) matrix x method-list shapes x {common cipher, none} x {command, auth-only} runs two real endpoints over an in-memory pipe: fail/succeed, whether authentication ran (witnessed on the wire), encryption when required, explicit denial instead of a bare close, equal reports on both sides, same session id and an immediate ping/pong both ways are compared with a decision table written from the property text.",
         "Method alphabet CLAIMTOBE / TOKEN / unimplemented PASSWORD; quick uses 5 of the 10 list shapes.", "DESIGN.md §3 C10"),
 "C04": ("fault_enumeration", "exhaustive single-fault enumeration over the cleartext handshake transcript through a relay between two real endpoints",
         "E-FAULT", "For four handshake shapes (no authentication, CLAIMTOBE, TOKEN, resumed session; both sides REQUIRE encryption) every byte offset of every cleartext frame is altered (1 substitute quick, 3 thorough) and every frame is preceded by an empty frame, removed, duplicated, split or merged, one fault per live handshake; if the fault was applied and both handshakes still finish, no application message may be accepted by either side (first protected frame must fail).",
         "Frame layout recorded in a pre-pass; a duplicate landing after a direction's last cleartext frame is judged as a protected-phase injection (its receiver must reject it).", "DESIGN.md §3 C04"),
 "C06": ("model_checking", "explicit-state BFS over event histories replayed on the real server resumption path, canonical-state de-duplication, reference map of sessions, scripted requesters and verbatim replays in every state",
         "E-BFS", "All histories up to depth 4 (quick) / 6 (thorough) over 12 events (establish keyed / authenticated key-less / plaintext session, resume with right id+key with and without reply, legitimate client resumption, three virtual-time advances, invalidate, sweep), de-duplicated by canonical state; in every state a battery of scripted resumption requests ({keyed, key-less, plaintext, unknown id} x {wrong key, no key} x {reply, none} x {same, other address}, every single-character alteration of a live id) and byte-for-byte replays (whole and truncated at each frame) of recorded resumed connections hit the real server. The server may resume only a live keyed session, must answer SID_NOT_FOUND when asked, must never hand application bytes from a key-less requester to its caller nor write readable bytes, and a legitimate resumption restores key, user and authentication status.",
         "Virtual time = re-storing cache entries with shifted expirations (public API); judgements within 30 s of an expiry are skipped; sequential in one process because the server cache is process-global.", "DESIGN.md §3 C06"),
 "C07": ("model_checking", "explicit-state BFS over client-side histories replayed on a real client cache and two real servers, canonical-state de-duplication, reference map (tag, address, command) -> reusable sessions",
         "E-BFS", "All histories up to depth 3 (quick) / 4 (thorough) over 20 events (12 handshakes over tag x server x command, server restarts, lost resumption request / reply, two virtual-time advances, invalidation, sweep), de-duplicated by canonical state: the resumption request the server receives (parsed off the wire) may name only a session established under the same tag and address, valid for that command and still alive; a failed resumption must remove the session and every route to it; after every event every route in the real cache must be allowed by the reference map.",
         "Only safety is demanded; sequential in one process; virtual time via re-stored entries.", "DESIGN.md §3 C07"),
 "C05": ("model_checking", "bounded exhaustive enumeration of connection/command histories against a real server.Server with a monitor in every handler and ground truth taken from the wire",
         "E-BFS", "All histories up to depth 3 (quick, reduced alphabet) / 4 (thorough) over open(client kind, first command) / kept-alive follow-on / explicit resume with another command / authorizer switch / raw send, on a server whose commands carry different per-command policies and authorization levels. Every handler invocation is judged: registered, reached through the right path, authentication really ran on the wire when required, stream really encrypted (and canaries invisible) when required, identity authorized under the current table; refused or unknown commands close the connection with no handler run.",
         "Client kinds: TOKEN alice/bob, unauthenticated, plaintext, scripted key-skipping CLAIMTOBE client; 16 worker processes isolate the process-global server cache.", "DESIGN.md §3 C05"),
 "C11": ("fault_enumeration", "exhaustive single-fault enumeration over the token string and over every byte of the three AKEP2 messages between a real client and server, judged by an independent HKDF+HMAC token verifier",
         "E-FAULT", "20 token variants (other key, unknown/traversal/empty key id, missing/non-string/empty sub, expiry and issue times 120 s either side of the limits) and every single-bit flip of a valid token go through a real TOKEN handshake and through VerifyIDToken; every byte of each AKEP2 message is altered in transit (two substitutes), truncated at every 8th byte, extended, and the claimed client identity is replaced field-aware. Server success requires a valid token and unaltered client proofs, client success an unaltered server proof, and the recorded user is always the token subject.",
         "Framing-only alterations (end flag, bytes after the message) are recorded, not judged; the server-side path for a validly signed token without 'sub' is not reached because the real client refuses to send one.", "DESIGN.md §3 C11"),
 "C16": ("exploration", "full-product enumeration of minting options; mint + import on the real code, entry-by-entry comparison, then a real resumption handshake in both directions; single-character secret corruption",
         "E-ENUM", "Every combination of sinful shape (incl. embedded '#', brackets, parameters), Encryption/Integrity toggles, cipher list, ValidCommands, lifetime, version form, tag and connection direction: both cache entries must agree on id, key, policy and expiry; the public form must not contain the secret; the policy text must be a render/parse fixed point; the dialling side must resume (no negotiation ad on the wire) and exchange ping/pong both ways; an importer whose secret differs in one character must get no application message accepted in either direction.",
         "8 (quick) / 64 (thorough) secret positions; tag axis reduced in quick.", "DESIGN.md §3 C16"),
 "C18": ("exploration", "bounded exhaustive enumeration of a path-component grammar against the real FS client half inside a private mount namespace, with full filesystem snapshots; server half against every object kind",
         "E-ENUM", "Every path built from 10 base spellings x ~80 leaf shapes (recognised, near-miss, traversal, control/non-ASCII bytes, over-long, remote and address-qualified forms over ip x port spellings; thorough adds every single-character mutation of two accepted paths) x peer address v4/v6 x local/remote x 4 scripted-server behaviours is sent to the real client; recursive snapshots before / while the server holds the answer / after show at most one new 0700 directory, only for paths an independent validator accepts, reply 0 iff created, and the initial state restored. The real server half is run against nothing / dir 0700 / dir 0755 / foreign-owned dir / dir with a sub-directory / file / symlinks / fifo.",
         "Needs root and `unshare -m` (falls back to the host /tmp and says so in the evidence); in-package seam (overlay, tag verif) reaches the remote variant.", "DESIGN.md §3 C18"),
 "C19": ("fault_enumeration", "exhaustive enumeration of stall points (every connection operation of the endpoint) x cancellation timing on real stream operations and handshakes over an in-memory conn that blocks the k-th operation until Close",
         "E-FAULT", "For plain, encrypted and typed exchanges and for the client and server side of five handshake shapes, a dry run counts the endpoint's reads and writes; for every k the k-th operation never completes and, exactly when the stall is entered, the context is cancelled or a harness-controlled deadline passes (thorough: also a real 50 ms timeout); plus already-cancelled, cancelled-after-completion and never-cancellable contexts. The call must return with an error (the context's own error for plain stream operations), the connection must have been closed, and uncancelled runs must equal the baseline.",
         "Free-running rather than scheduler-controlled (context.AfterFunc runs on runtime goroutines); the only wall-clock judgement is a 10 s hang watchdog; SSL/FS/KERBEROS shapes excluded.", "DESIGN.md §3 C19"),
}
PENDING = "check not built yet in this session (planned, DESIGN.md section 3); listed here until its check is registered"
def main():
    checks = []
    for pid in ALL:
        if pid not in CHECKS: continue
        cat, tech, eng, text, note, ref = CHECKS[pid]
        checks.append({
            "property_id": pid,
            "quick_cmd": "./check %s quick" % pid,
            "thorough_cmd": "./check %s thorough" % pid,
            "evidence_file": "/verif/evidence/%s.json" % pid,
            "replay_cmd_template": "./check %s --replay {path}" % pid,
            "engine": eng,
            "level_claimed": {"category": cat, "text": text, "design_ref": ref},
            "level_note": note,
            "technique": tech,
        })
    m = {
        "version": 1,
        "setup_cmd": "./setup.sh",
        "hooks": {
            "guard": "verif",
            "enable": "go build -tags verif -overlay .build/overlay.json (overlay generated by ./check from /repo's current files; adds verif-tagged export files and, for C17, instrumented copies; /repo itself contains no hook code)",
            "baseline_off_cmd": "cd /repo && GOFLAGS=-mod=mod go test -vet=off -count=1 -timeout 25m ./...",
            "source_commits": [],
            "add_only": True,
        },
        "engines": [
            {"name": "E-ENUM", "path": "/verif/props", "serves_properties": [], "kind_free_text": "bounded exhaustive input/configuration enumeration on the real code with independent reference oracles (refcodec)"},
        ],
        "checks": checks,
        "not_applicable": [{"property_id": p, "reason": PENDING} for p in ALL if p not in CHECKS],
        "notes": "All checks are bounded exhaustive explorations (model-checking family) of the real cedar code rebuilt from /repo's working tree; see DESIGN.md.",
    }
    json.dump(m, open(os.path.join(V, "MANIFEST.json"), "w"), indent=1)
    print("MANIFEST.json: %d checks, %d pending" % (len(checks), len(m["not_applicable"])))
if __name__ == "__main__":
    main()
