#!/usr/bin/env python3
# tools/seed_store.py <spec.json>: store confirmed seeded changes under /verif/seeded/<label>/.
# spec = list of {label, property, src (dir with patch.diff, notes.md, demo), demo, copy_into, pkg, run,
#                 key, missed, breaks, needs, strengthening, base}
import json, os, shutil, sys, subprocess
V = os.path.dirname(os.path.dirname(os.path.abspath(__file__)))
for e in json.load(open(sys.argv[1])):
    d = os.path.join(V, 'seeded', e['label'])
    os.makedirs(d, exist_ok=True)
    shutil.copy(os.path.join(e['src'], 'patch.diff'), d + '/patch.diff')
    os.makedirs(os.path.dirname(d + '/' + e['demo']), exist_ok=True)
    shutil.copy(os.path.join(e['src'], e['demo']), d + '/' + e['demo'])
    if os.path.exists(os.path.join(e['src'], 'notes.md')):
        shutil.copy(os.path.join(e['src'], 'notes.md'), d + '/author_notes.md')
    run = e.get('run', '')
    meta = {"property": e['property'], "breaks": e['breaks'], "needs_to_manifest": e['needs'],
            "demonstration": {"file": e['demo'], "copy_into": e['copy_into'], "command": ("go test -vet=off -count=1 %s %s" % (run, e['pkg'])).replace("  ", " ")},
            "confirmed": {"how": ("tools/seed_verify.sh %s seeded/%s/patch.diff seeded/%s/%s %s %s %s" % (e['label'], e['label'], e['label'], e['demo'], e['copy_into'], e['pkg'], run)).strip(),
                          "base_commit": e.get('base', ''), "builds": True, "existing_suite_passes_with_change": True, "demo_fails_with_change": True, "demo_passes_without_change": True},
            "checks_run": {"command": "tools/pmutant.sh seeded/%s/patch.diff %s" % (e['label'], e.get('check', e['property'])), "result": "exit 1, VIOLATION", "first_violation_key": e['key']},
            "initially_missed": e['missed'], "strengthening": e.get('strengthening', '')}
    json.dump(meta, open(d + '/meta.json', 'w'), indent=1)
subprocess.run([sys.executable, os.path.join(V, 'tools', 'seed_readme.py')], cwd=V)
