#!/bin/bash
# Supplement to C17 (never decides a property): free-running `go test -race` over the
# repository's own concurrent tests; the cooperative scheduler of the C17 check cannot
# see races on fields it does not instrument.
export GOFLAGS=-mod=mod GOPROXY=off; unset GOSUMDB
cd /repo && go test -race -vet=off -count=1 -run 'Concurrent|SessionCache' ./security/ ./server/ 2>&1 | tail -5
