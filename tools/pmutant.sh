#!/bin/bash
# tools/pmutant.sh <patch> <ID> [<ID>...] — like mutant.sh, but leaves /repo alone: the patch is
# applied to a private scratch worktree of /repo's HEAD (VERIF_REPO), the harness is built in a
# private build directory (VERIF_BUILD) and evidence/replays go to a scratch directory (VERIF_OUT),
# so several can run at once and /verif/evidence keeps describing the real tree.
set -u
P=$(readlink -f "$1"); shift
T=$(mktemp -d /tmp/pmut.XXXXXX)
git -C /repo worktree add -q --detach $T/repo HEAD || { echo "cannot add worktree"; exit 2; }
trap 'git -C /repo worktree remove --force $T/repo 2>/dev/null; rm -rf $T' EXIT
if ! git -C $T/repo apply --3way "$P" >/dev/null 2>&1; then echo "mutant=$(basename $(dirname $P))/$(basename $P) patch does not apply"; exit 2; fi   # --3way: merge against the blobs the patch names, so that a shifted context cannot land the hunk in a look-alike site
# build and output directories live under /verif/.build (C18 runs with a private tmpfs on /tmp)
W=/verif/.build/pmut-$(basename $T)
trap 'git -C /repo worktree remove --force $T/repo 2>/dev/null; rm -rf $T $W' EXIT
export VERIF_REPO=$T/repo VERIF_BUILD=$W/build VERIF_OUT=$W/out
mkdir -p $VERIF_BUILD $VERIF_OUT
for id in "$@"; do
  out=$(/verif/check $id ${TIER:-quick} 2>&1); rc=$?
  nv=$(echo "$out" | grep -c '^VIOLATION')
  echo "mutant=$(basename $(dirname $P))/$(basename $P) check=$id exit=$rc violations=$nv :: $(echo "$out" | grep -m1 '^  key' )"
done
