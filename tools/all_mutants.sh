#!/bin/bash
# tools/all_mutants.sh [jobs] — run every deliberate mutant (mutants/*.patch) and every seeded change
# (seeded/*/patch.diff) against the quick check of its property, each in its own scratch worktree
# (tools/pmutant.sh), `jobs` at a time (default 4); print the ones NOT caught. /repo must be clean.
cd /verif
J=${1:-4}
if ! git -C /repo diff --quiet; then echo "/repo has uncommitted changes"; exit 2; fi
one() {
  p=$1
  case $p in
    mutants/*) id=$(basename $p | cut -c1-3);;
    seeded/*) id=$(basename $(dirname $p) | cut -c1-3);;
  esac
  out=$(tools/pmutant.sh $p $id 2>&1 | grep "^mutant=")
  if echo "$out" | grep -q "exit=1"; then echo "caught $p"; else echo "NOT-CAUGHT $p :: $out"; fi
}
export -f one
ls mutants/*.patch seeded/*/patch.diff | while read p; do case $p in seeded/*) grep -q masked_by_fix $(dirname $p)/meta.json && continue;; esac; echo $p; done | xargs -P $J -I{} bash -c 'one {}' > /tmp/all_mutants.$$ 2>&1
grep NOT-CAUGHT /tmp/all_mutants.$$
echo "mutants+seeded run: $(wc -l < /tmp/all_mutants.$$), not caught: $(grep -c NOT-CAUGHT /tmp/all_mutants.$$)"
rm -f /tmp/all_mutants.$$
