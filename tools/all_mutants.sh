#!/bin/bash
# tools/all_mutants.sh — run every deliberate mutant (mutants/*.patch) and every seeded change
# (seeded/*/patch.diff) against the quick check of its property; print the ones NOT caught.
cd /verif
miss=0; n=0
for p in mutants/*.patch seeded/*/patch.diff; do
  case $p in
    mutants/*) id=$(basename $p | cut -c1-3);;
    seeded/*) id=$(basename $(dirname $p) | cut -c1-3);;
  esac
  out=$(tools/mutant.sh $p $id 2>&1 | grep "^mutant=")
  n=$((n+1))
  if echo "$out" | grep -q "exit=1"; then :; else echo "NOT-CAUGHT $p :: $out"; miss=$((miss+1)); fi
done
echo "mutants+seeded run: $n, not caught: $miss"
