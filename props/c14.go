package props

// C14 — typed values use HTCondor's byte layout and survive frame boundaries.
// E-ENUM: boundary integers through every width wrapper, structured doubles,
// all chars, short UTF-8 strings and boundary-length strings, all sequences of
// <= 3 representative values. (1) bytes emitted by the real Put* (payload
// recovered by the independent frame parser / decryptor) equal the independent
// encoder's bytes; (2) the reference payload re-cut at every position (every
// pair of positions when short) and framed by the reference is decoded by the
// real Get* to the original value.

import (
	"bytes"
	"context"
	"fmt"
	"math"

	"github.com/bbockelm/cedar/message"
	"github.com/bbockelm/cedar/stream"

	"verif/netsim"
	"verif/refcodec"
	"verif/vlib"
)

type tval struct {
	kind string // int int32 int64 uint32 double float char string
	i    int64
	f    float64
	s    string
}

func (v tval) String() string {
	switch v.kind {
	case "double", "float":
		return fmt.Sprintf("%s(%v/0x%x)", v.kind, v.f, math.Float64bits(v.f))
	case "string", "stringbytes":
		if len(v.s) > 16 {
			return fmt.Sprintf("string(len=%d)", len(v.s))
		}
		return fmt.Sprintf("string(%q)", v.s)
	}
	return fmt.Sprintf("%s(%d)", v.kind, v.i)
}

func (v tval) put(ctx context.Context, m *message.Message) error {
	switch v.kind {
	case "int":
		return m.PutInt(ctx, int(v.i))
	case "int32":
		return m.PutInt32(ctx, int32(v.i))
	case "int64":
		return m.PutInt64(ctx, v.i)
	case "uint32":
		return m.PutUint32(ctx, uint32(v.i))
	case "double":
		return m.PutDouble(ctx, v.f)
	case "float":
		return m.PutFloat(ctx, float32(v.f))
	case "char":
		return m.PutChar(ctx, byte(v.i))
	case "string":
		return m.PutString(ctx, v.s)
	case "stringbytes":
		return m.PutStringBytes(ctx, []byte(v.s))
	}
	panic(v.kind)
}

func (v tval) ref(enc bool) []byte {
	switch v.kind {
	case "int", "int32", "int64", "uint32":
		return refcodec.EncInt(v.i)
	case "double":
		return refcodec.EncDouble(v.f)
	case "float":
		return refcodec.EncDouble(float64(float32(v.f)))
	case "char":
		return []byte{byte(v.i)}
	case "string", "stringbytes":
		return refcodec.EncString(v.s, enc)
	}
	panic(v.kind)
}

// getCheck decodes the value with the real reader and compares.
func (v tval) getCheck(ctx context.Context, m *message.Message) error {
	switch v.kind {
	case "int":
		g, err := m.GetInt(ctx)
		if err != nil {
			return err
		}
		if int64(g) != v.i {
			return fmt.Errorf("decoded %d", g)
		}
	case "int32":
		g, err := m.GetInt32(ctx)
		if err != nil {
			return err
		}
		if int64(g) != v.i {
			return fmt.Errorf("decoded %d", g)
		}
	case "int64":
		g, err := m.GetInt64(ctx)
		if err != nil {
			return err
		}
		if g != v.i {
			return fmt.Errorf("decoded %d", g)
		}
	case "uint32":
		g, err := m.GetUint32(ctx)
		if err != nil {
			return err
		}
		if int64(g) != v.i {
			return fmt.Errorf("decoded %d", g)
		}
	case "double", "float":
		var g float64
		var err error
		want := v.f
		if v.kind == "float" {
			var g32 float32
			g32, err = m.GetFloat(ctx)
			g = float64(g32)
			want = float64(float32(v.f))
		} else {
			g, err = m.GetDouble(ctx)
		}
		if err != nil {
			return err
		}
		tol := math.Abs(want) * math.Ldexp(1, -30)
		if v.kind == "float" {
			tol = math.Abs(want) * math.Ldexp(1, -23)
		}
		if math.IsNaN(g) || math.Abs(g-want) > tol {
			return fmt.Errorf("decoded %v (0x%x), want %v within 2^-30 relative", g, math.Float64bits(g), want)
		}
	case "char":
		g, err := m.GetChar(ctx)
		if err != nil {
			return err
		}
		if int64(g) != v.i {
			return fmt.Errorf("decoded %d", g)
		}
	case "string", "stringbytes":
		g, err := m.GetString(ctx)
		if err != nil {
			return err
		}
		if g != v.s {
			return fmt.Errorf("decoded string of %d bytes differs (first diff %d)", len(g), firstDiff([]byte(g), []byte(v.s)))
		}
	}
	return nil
}

// c14Encode: real Put* of the sequence, payload recovered independently.
func c14Encode(vals []tval, enc bool) ([]byte, error) {
	ctx := context.Background()
	sb := &netsim.Buf{}
	s := stream.NewStream(sb)
	if enc {
		_ = s.SetSymmetricKey(testKey)
	}
	m := message.NewMessageForStream(s)
	for _, v := range vals {
		if err := v.put(ctx, m); err != nil {
			return nil, fmt.Errorf("put %v: %w", v, err)
		}
	}
	if err := m.FinishMessage(ctx); err != nil {
		return nil, err
	}
	frames, rest := refcodec.ParseFrames(sb.W)
	if len(rest) != 0 {
		return nil, fmt.Errorf("stray bytes on the wire")
	}
	var out []byte
	var dir *refcodec.Dir
	if enc {
		dir, _ = refcodec.NewDir(testKey, [32]byte{}, [32]byte{})
	}
	for i, f := range frames {
		body := f.Body
		if enc {
			pt, err := dir.Open(f)
			if err != nil {
				return nil, fmt.Errorf("frame %d: %v", i, err)
			}
			body = pt
		}
		out = append(out, body...)
		if (f.End != 0) != (i == len(frames)-1) {
			return nil, fmt.Errorf("frame %d has end flag %d", i, f.End)
		}
	}
	return out, nil
}

// c14Decode: frames built by the reference from payload cut at the given
// positions, decoded by the real reader.
func c14Decode(vals []tval, payload []byte, cuts []int, enc bool) error {
	ctx := context.Background()
	rb := &netsim.Buf{}
	var dir *refcodec.Dir
	if enc {
		dir, _ = refcodec.NewDir(testKey, [32]byte{}, [32]byte{})
		copy(dir.BaseIV[:], []byte("\xff\xff\xff\xfe-ref-iv-c14"))
	}
	prev := 0
	var emit func(end byte, b []byte)
	emit = func(end byte, b []byte) {
		// a conformant sender never exceeds the frame limit (on-wire length)
		limit := 1 << 20
		if enc {
			limit -= 32
		}
		for len(b) > limit {
			emit(0, b[:limit])
			b = b[limit:]
		}
		if enc {
			rb.R = append(rb.R, dir.Seal(end, b)...)
		} else {
			rb.R = append(rb.R, refcodec.MkFrame(end, b)...)
		}
	}
	for _, c := range cuts {
		emit(0, payload[prev:c])
		prev = c
	}
	emit(1, payload[prev:])
	s := stream.NewStream(rb)
	if enc {
		_ = s.SetSymmetricKey(testKey)
	}
	m := message.NewMessageFromStream(s)
	for i, v := range vals {
		if err := v.getCheck(ctx, m); err != nil {
			return fmt.Errorf("value %d %v: %w", i, v, err)
		}
	}
	rest, err := m.GetRemainingBytes(ctx)
	if err != nil || len(rest) != 0 {
		return fmt.Errorf("after the values: %d bytes left, err=%v", len(rest), err)
	}
	return nil
}

func c14Values(tier string) []tval {
	var vs []tval
	addInt := func(x int64) {
		vs = append(vs, tval{kind: "int64", i: x}, tval{kind: "int", i: x})
		if x >= math.MinInt32 && x <= math.MaxInt32 {
			vs = append(vs, tval{kind: "int32", i: x})
		}
		if x >= 0 && x <= math.MaxUint32 {
			vs = append(vs, tval{kind: "uint32", i: x})
		}
	}
	seen := map[int64]bool{}
	for k := 0; k <= 63; k++ {
		for _, sgn := range []int64{1, -1} {
			for _, d := range []int64{-1, 0, 1} {
				var base int64
				if k == 63 {
					base = math.MinInt64
					if sgn > 0 {
						base = math.MaxInt64
						if d > 0 {
							continue
						}
					} else if d < 0 {
						continue
					}
				} else {
					base = sgn * (int64(1) << uint(k))
				}
				x := base + d
				if !seen[x] {
					seen[x] = true
					addInt(x)
				}
			}
		}
	}
	for c := 0; c < 256; c++ {
		vs = append(vs, tval{kind: "char", i: int64(c)})
	}
	// doubles
	mants := []uint64{0, 1 << 51, 1 << 22, (1 << 52) - 1, 0x5555555555555, 0xAAAAAAAAAAAAA}
	kstep := 1
	if tier != "thorough" {
		kstep = 7
	}
	for e := 1; e <= 2046; e += kstep {
		for _, mt := range mants {
			for _, sg := range []uint64{0, 1} {
				vs = append(vs, tval{kind: "double", f: math.Float64frombits(sg<<63 | uint64(e)<<52 | mt)})
			}
		}
	}
	for _, e := range []int{1, 2, 1022, 1023, 1024, 2045, 2046} { // always the exponent extremes
		for _, mt := range mants {
			vs = append(vs, tval{kind: "double", f: math.Float64frombits(uint64(e)<<52 | mt)})
		}
	}
	for _, b := range []uint64{0, 1 << 63, 1, (1 << 52) - 1, 1 << 51, 0x8000000000000001} { // zeros, subnormals
		vs = append(vs, tval{kind: "double", f: math.Float64frombits(b)})
	}
	for k := 0; k < 52; k++ {
		vs = append(vs, tval{kind: "double", f: math.Float64frombits(1 << uint(k))})
	}
	for _, f := range []float64{1.5, -2.25, 3.4028234663852886e38, 1.401298464324817e-45, 0.1} {
		vs = append(vs, tval{kind: "float", f: f})
	}
	// strings: all <= 3 symbols over the alphabet
	syms := []string{"a", "é", "€", " ", `"`, "\u00ad"} // U+00AD: its UTF-8 form ends in the byte that marks a null string when it comes FIRST
	var rec func(s string, d int)
	rec = func(s string, d int) {
		vs = append(vs, tval{kind: "string", s: s}, tval{kind: "stringbytes", s: s})
		if d == 3 {
			return
		}
		for _, y := range syms {
			rec(s+y, d+1)
		}
	}
	rec("", 0)
	return vs
}

func c14Long(n int) tval {
	b := make([]byte, n)
	for i := range b {
		b[i] = byte('A' + (i*7)%50)
	}
	if n > 2 {
		copy(b[n/2:], "é")
	}
	return tval{kind: "string", s: string(b)}
}

func C14Plan() *vlib.Plan {
	p := &vlib.Plan{
		Property: "C14", Level: "exploration",
		Rule:   "E-ENUM: every value of the boundary catalogue (+-2^k, +-2^k+-1 through every width wrapper, all 256 chars, doubles = exponents x 6 mantissa patterns x sign + subnormals, all UTF-8 strings <= 3 symbols over {a,e-acute,euro,space,quote}, strings of length 16384+-2 and 1MiB+-34, alone and right after / before a still-buffered char or int for lengths 12 below to 2 above 16 KiB and 1 MiB) and every sequence <= 3 of 8 representative values, x {plain, AES-GCM}: (1) real Put* bytes == independent encoder bytes; (2) reference payload re-cut at every position (every pair of positions for payloads <= 40 bytes) and reference-framed must be decoded by the real Get* to the original. Non-trivial = each distinct (value, mode, cut set) evaluation.",
		Assume: []string{"doubles compared within 2^-30 relative (format precision); NaN/Inf excluded (statement says finite)"},
	}
	p.Gen = func(tier string, yield func(vlib.Case)) {
		p.Bounds = map[string]any{"pair_cut_max_payload": 40}
		run := func(id string, vals []tval, enc bool, cutMode string) vlib.Case {
			return vlib.Case{ID: id, Run: func() *vlib.Result {
				res := &vlib.Result{}
				var ref []byte
				for _, v := range vals {
					ref = append(ref, v.ref(enc)...)
				}
				mode := "plain"
				if enc {
					mode = "enc"
				}
				kind := vals[0].kind
				got, err := c14Encode(vals, enc)
				res.Evals++
				res.Nontrivial++
				if err != nil {
					res.Violate(fmt.Sprintf("C14/encode-error/%s/%s", kind, mode), "%s: %v", id, err)
				} else if !bytes.Equal(got, ref) {
					res.Violate(fmt.Sprintf("C14/layout/%s/%s", kind, mode), "%s: real encoder emitted %x..., reference format says %x... (first diff at byte %d of %d/%d)", id, head(got), head(ref), firstDiff(got, ref), len(got), len(ref))
				}
				check := func(cuts []int) {
					res.Evals++
					res.Nontrivial++
					if err := c14Decode(vals, ref, cuts, enc); err != nil {
						res.Violate(fmt.Sprintf("C14/decode/%s/%s", kind, mode), "%s cuts=%v: %v", id, cuts, err)
					}
				}
				check(nil)
				switch cutMode {
				case "all":
					for c := 0; c <= len(ref); c++ {
						check([]int{c})
					}
					if len(ref) <= 40 {
						for c1 := 0; c1 <= len(ref); c1++ {
							for c2 := c1; c2 <= len(ref); c2++ {
								check([]int{c1, c2})
							}
						}
					}
				case "boundary":
					for _, c := range []int{0, 1, 7, 8, 9, 15, 16, 17, 4095, 4096, 16383, 16384, 16385, len(ref) / 2, len(ref) - 9, len(ref) - 2, len(ref) - 1, len(ref)} {
						if c >= 0 && c <= len(ref) {
							check([]int{c})
						}
					}
					check([]int{3, 12, len(ref) - 1})
				}
				if len(res.Violations) == 0 {
					res.Outcome("ok-" + kind)
				} else {
					res.Outcome("finding-" + kind)
				}
				res.Sample = id
				return res
			}}
		}
		vals := c14Values(tier)
		for _, enc := range []bool{false, true} {
			for i, v := range vals {
				yield(run(fmt.Sprintf("v%d/%v/enc=%v", i, v, enc), []tval{v}, enc, "all"))
			}
			// long strings
			lens := []int{16382, 16383, 16384, 16385, 16386}
			for d := -34; d <= 34; d++ {
				if tier == "thorough" || d%4 == 0 || d >= -34 && d <= -30 || d >= -18 && d <= -14 || d >= -2 && d <= 2 {
					lens = append(lens, 1<<20+d)
				}
			}
			for _, n := range lens {
				yield(run(fmt.Sprintf("long/%d/enc=%v", n, enc), []tval{c14Long(n)}, enc, "boundary"))
			}
			// a long string AFTER values that are still buffered in the same message (and before
			// one): the encoder must flush what is pending rather than outgrow a frame
			for _, pend := range []tval{{kind: "char", i: 7}, {kind: "int", i: -2}} {
				var ns []int
				for d := -12; d <= 2; d++ {
					ns = append(ns, 16384+d, 1<<20+d)
				}
				for _, n := range ns {
					if tier != "thorough" && n > 1<<19 && (n-(1<<20))%2 != 0 && n < 1<<20-10 {
						continue
					}
					yield(run(fmt.Sprintf("pending-%s+long/%d/enc=%v", pend.kind, n, enc), []tval{pend, c14Long(n)}, enc, "boundary"))
					if n%4 == 0 {
						yield(run(fmt.Sprintf("long+%s/%d/enc=%v", pend.kind, n, enc), []tval{c14Long(n), pend}, enc, "boundary"))
					}
					// the same through the byte-slice string writer
					lb := c14Long(n)
					lb.kind = "stringbytes"
					if n%2 == 0 {
						yield(run(fmt.Sprintf("pending-%s+longbytes+%s/%d/enc=%v", pend.kind, pend.kind, n, enc), []tval{pend, lb, pend}, enc, "boundary"))
					}
				}
			}
			// sequences of <= 3 representative values
			reps := []tval{{kind: "int", i: -2}, {kind: "uint32", i: 4000000000}, {kind: "char", i: 0}, {kind: "char", i: 255}, {kind: "double", f: -1234.5678e-200}, {kind: "string", s: ""}, {kind: "string", s: "é\"a"}, {kind: "int64", i: math.MinInt64}}
			for a := range reps {
				for b := -1; b < len(reps); b++ {
					for c := -1; c < len(reps); c++ {
						if b == -1 && c != -1 {
							continue
						}
						seq := []tval{reps[a]}
						if b >= 0 {
							seq = append(seq, reps[b])
						}
						if c >= 0 {
							seq = append(seq, reps[c])
						}
						if len(seq) == 1 {
							continue
						}
						yield(run(fmt.Sprintf("seq/%d,%d,%d/enc=%v", a, b, c, enc), seq, enc, "all"))
					}
				}
			}
		}
	}
	return p
}

func head(b []byte) []byte {
	if len(b) > 24 {
		return b[:24]
	}
	return b
}
