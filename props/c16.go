package props

// C16 — a minted claim id and its import yield one shared, working session.
// E-ENUM over the full product of minting options; every mint+import pair is
// compared entry by entry, then used for a real resumption handshake in both
// connection directions with traffic both ways; single-character corruptions
// of the secret must not yield an accepted application message.

import (
	"bytes"
	"fmt"
	"strings"
	"time"

	"github.com/bbockelm/cedar/security"

	"verif/vlib"
)

var c16Sinfuls = []string{
	"<10.0.0.7:9618>",
	"<10.0.0.7:9618?addrs=10.0.0.7-9618&noUDP>",
	"<10.0.0.7:9618?addrs=10.0.0.7-9618&noUDP&sock=startd_1234_abcd>",
	"<10.0.0.7:9618?sock=startd_1#2_ab#cd>",
	"<[fd00::7]:9618?addrs=[fd00--7]-9618&noUDP>",
	"<10.0.0.7:9618?noUDP&sock=startd_77#[slot1_2]>", // '#' directly followed by '[' inside the address, as before the session-info block
}

var c16Ciphers = []string{"", "AES", "AESGCM", "AES,BLOWFISH", "AES,3DES,BLOWFISH"}
var c16Versions = []string{"", "$CondorVersion: 25.4.0 2025-10-31 BuildID: 847437 $", "25.4.0"}

func bptr(i int) *bool {
	switch i {
	case 1:
		t := true
		return &t
	case 2:
		f := false
		return &f
	}
	return nil
}

func policyStr(e *security.SessionEntry, k string) string {
	if e.Policy() == nil {
		return "<nil policy>"
	}
	if s, ok := e.Policy().EvaluateAttrString(k); ok {
		return s
	}
	if x, ok := e.Policy().Lookup(k); ok {
		return x.String()
	}
	return "<unset>"
}

func c16One(res *vlib.Result, si, enc, integ, ci, vc, life, ver, dir, tag int) {
	res.Evals++
	id := fmt.Sprintf("sinful=%d enc=%d integ=%d ciphers=%q cmds=%d lifetime=%d ver=%d dir=%d tag=%d", si, enc, integ, c16Ciphers[ci], vc, life, ver, dir, tag)
	M, I := security.NewSessionCache(), security.NewSessionCache()
	opts := security.MintClaimOptions{Sinful: c16Sinfuls[si], Birthdate: 1700000000, SequenceNum: 7, Encryption: bptr(enc), Integrity: bptr(integ), CryptoMethods: c16Ciphers[ci], RemoteVersion: c16Versions[ver]}
	switch vc {
	case 1:
		opts.ValidCommands = []int{443}
	case 2:
		opts.ValidCommands = []int{443, 444}
	}
	switch life {
	case 1:
		opts.Lifetime = 60 * time.Second
	case 2:
		opts.Lifetime = 20 * 365 * 24 * time.Hour // expires after 2038-01-19 (beyond 2^31-1 seconds)
	case 3:
		opts.Lifetime = 100 * 365 * 24 * time.Hour
	}
	tg := ""
	if tag == 1 {
		tg = "claimtag"
	}
	opts.Tag = tg
	// commands mapped in addition to the claim's own list: numbers whose decimal form is a piece of
	// the list's text ("44" and "4" inside "443,444"), and an unrelated one
	extra := []int{44, 4, 60021}
	if vc >= 1 {
		opts.ExtraValidCommands = extra
	}
	const importerAddr = "<10.9.9.9:7777>"
	opts.PeerAddr = importerAddr // the minter will also dial the importer BY COMMAND
	mc, err := security.MintClaimSession(M, opts)
	if err != nil {
		res.Violate("C16/mint-error", "%s: %v", id, err)
		return
	}
	res.Nontrivial++
	claim := mc.ClaimID()
	sid := mc.SessionID()
	cid := security.ParseClaimIDStrict(claim)
	secret := cid.SecSessionKey()
	if secret == "" || len(secret) < 16 {
		res.Violate("C16/no-secret", "%s: claim id has no secret part", id)
		return
	}
	if strings.Contains(mc.PublicClaimID(), secret) || strings.Contains(mc.PublicClaimID(), secret[:12]) {
		res.Violate("C16/public-form-leaks-secret", "%s: PublicClaimID %q contains the secret", id, mc.PublicClaimID())
	}
	// policy text round trip
	if pol, err := security.ImportSecSessionInfo(cid.SecSessionInfo()); err != nil {
		res.Violate("C16/session-info-unparseable", "%s: %v", id, err)
	} else if again, err := security.ExportSecSessionInfo(pol); err != nil || again != cid.SecSessionInfo() {
		res.Violate("C16/session-info-not-fixed-point", "%s: %q -> %q (%v)", id, cid.SecSessionInfo(), again, err)
	}
	iopts := security.ClaimSessionOptions{PeerAddr: c16Sinfuls[si], Tag: tg}
	if vc >= 1 {
		iopts.ExtraValidCommands = extra
	}
	isid, err := security.ImportClaimSession(I, claim, iopts)
	if err != nil {
		res.Violate("C16/import-error", "%s: %v", id, err)
		return
	}
	if isid != sid {
		res.Violate("C16/session-id-differs", "%s: minted %q imported %q", id, sid, isid)
		return
	}
	me, ok1 := M.Lookup(sid)
	ie, ok2 := I.Lookup(sid)
	if !ok1 || !ok2 {
		res.Violate("C16/entry-missing", "%s: minter has=%v importer has=%v", id, ok1, ok2)
		return
	}
	if me.KeyInfo() == nil || ie.KeyInfo() == nil || !bytes.Equal(me.KeyInfo().Data, ie.KeyInfo().Data) || len(me.KeyInfo().Data) != 32 {
		res.Violate("C16/key-differs", "%s", id)
	}
	for _, k := range []string{"Encryption", "Integrity", "CryptoMethods", "ValidCommands", "CryptoMethodsList"} {
		if a, b := policyStr(me, k), policyStr(ie, k); a != b {
			res.Violate("C16/policy-differs/"+k, "%s: minter %s=%s importer %s", id, k, a, b)
		}
	}
	if !me.Expiration().Equal(ie.Expiration()) {
		res.Violate("C16/expiry-differs", "%s: minter %v importer %v", id, me.Expiration(), ie.Expiration())
	}
	if life >= 2 {
		want := time.Duration([]int{0, 0, 20, 100}[life]) * 365 * 24 * time.Hour
		if me.Expiration().IsZero() || time.Until(me.Expiration()) > want+time.Minute || time.Until(me.Expiration()) < want-time.Minute {
			res.Violate("C16/expiry-wrong", "%s: lifetime %v but minter expiry %v", id, want, me.Expiration())
		}
	}
	if life == 1 && (me.Expiration().IsZero() || time.Until(me.Expiration()) > 61*time.Second || time.Until(me.Expiration()) < 30*time.Second) {
		res.Violate("C16/expiry-wrong", "%s: lifetime 60s but expiry %v", id, me.Expiration())
	}
	// resumption handshake, one direction per case
	run := func(cliCache, srvCache *security.SessionCache, label string, wantOK bool) {
		cc := baseCfg(security.SecurityOptional, security.SecurityOptional, nil, []security.CryptoMethod{security.CryptoAES}, false)
		cc.SessionCache, cc.SessionID, cc.Command, cc.SecurityTag = cliCache, sid, 443, tg
		sc := baseCfg(security.SecurityOptional, security.SecurityOptional, nil, []security.CryptoMethod{security.CryptoAES}, true)
		sc.SessionCache = srvCache
		// the resuming endpoints' own policies: when the claim session is encrypted, an
		// endpoint that REQUIRES encryption or integrity is satisfied by it (rotated by case)
		if enc != 2 && integ != 2 {
			switch (si + ci + vc + life + ver + tag) % 4 {
			case 1:
				cc.Encryption, sc.Encryption = security.SecurityRequired, security.SecurityRequired
			case 2:
				cc.Integrity, sc.Integrity = security.SecurityRequired, security.SecurityRequired
			case 3:
				sc.Encryption, cc.Integrity = security.SecurityRequired, security.SecurityRequired
			}
		}
		r := hsRun(hsOpts{ClientCfg: cc, ServerCfg: sc, App: true})
		res.Transitions++
		if !wantOK {
			if len(r.S.AppGot) > 0 || len(r.C.AppGot) > 0 {
				res.Violate("C16/wrong-secret-accepted/"+label, "%s: an importer holding a different secret got an application message accepted (server got %q, client got %q)", id, trunc(r.S.AppGot), trunc(r.C.AppGot))
			}
			return
		}
		if r.C.Err != nil || r.S.Err != nil {
			res.Violate("C16/resumption-failed/"+label, "%s: client %s server %s", id, errStr(r.C.Err), errStr(r.S.Err))
			return
		}
		if !r.C.Resumed || !r.S.Resumed {
			res.Violate("C16/not-a-resumption/"+label, "%s: client resumed=%v server resumed=%v", id, r.C.Resumed, r.S.Resumed)
		}
		if len(r.C2S) > 0 {
			ad := (&wireReader{b: r.C2S[0][5+8:]}).ad()
			if ad.str("UseSession") != "YES" || ad.has("AuthMethods") {
				res.Violate("C16/fresh-handshake-on-wire/"+label, "%s: the first client message is not a bare resumption request", id)
			}
		}
		if string(r.S.AppGot) != "ping-from-client" || string(r.C.AppGot) != "pong-from-server" {
			res.Violate("C16/no-traffic/"+label, "%s: ping/pong failed: %s / %s", id, errStr(r.C.AppErr), errStr(r.S.AppErr))
		}
		if r.C.Neg.Encryption != r.S.Neg.Encryption || r.C.Stream.IsEncrypted() != r.S.Stream.IsEncrypted() {
			res.Violate("C16/encryption-disagrees/"+label, "%s", id)
		}
	}
	if dir == 0 {
		run(I, M, "importer-dials", true)
	} else {
		run(M, I, "minter-dials", true)
	}
	// using the session does not move its deadline on either side: the two caches still agree
	// with each other and with the deadline embedded in the claim id
	if me2, ok := M.Lookup(sid); ok {
		if ie2, ok := I.Lookup(sid); ok && life >= 1 {
			if !me2.Expiration().Equal(ie2.Expiration()) || !me2.Expiration().Equal(me.Expiration()) {
				res.Violate("C16/expiry-differs/after-use", "%s: after one resumption the minter's entry expires %v, the importer's %v (at mint time: %v)", id, me2.Expiration(), ie2.Expiration(), me.Expiration())
			}
		}
	}
	// the same connection opened BY COMMAND (no session id given): the dialer's cache
	// must route (tag, peer address, command) to the claim session
	if vc >= 1 {
		cliCache, srvCache, peer, label := I, M, c16Sinfuls[si], "importer-dials-by-command"
		if dir == 1 {
			cliCache, srvCache, peer, label = M, I, importerAddr, "minter-dials-by-command"
		}
		cmds := []int{443}
		if (si+enc+integ+ci+life+ver)%3 == 0 {
			cmds = append(cmds, extra...) // the additionally mapped commands route to the claim session too
		}
		for _, byCmd := range cmds {
			cc := baseCfg(security.SecurityOptional, security.SecurityOptional, nil, []security.CryptoMethod{security.CryptoAES}, false)
			cc.SessionCache, cc.Command, cc.SecurityTag, cc.PeerName = cliCache, byCmd, tg, peer
			sc := baseCfg(security.SecurityOptional, security.SecurityOptional, nil, []security.CryptoMethod{security.CryptoAES}, true)
			sc.SessionCache = srvCache
			label := fmt.Sprintf("%s/cmd=%d", label, byCmd)
			r := hsRun(hsOpts{ClientCfg: cc, ServerCfg: sc, App: true})
			res.Transitions++
			if r.S.Neg != nil && r.S.Neg.SessionId != sid {
				security.GetSessionCache().Invalidate(r.S.Neg.SessionId)
			}
			if r.C.Err != nil || r.S.Err != nil || !r.C.Resumed || !r.S.Resumed || r.C.Neg.SessionId != sid {
				gotSid := ""
				if r.C.Neg != nil {
					gotSid = r.C.Neg.SessionId
				}
				res.Violate("C16/by-command-not-resumed/"+label, "%s: a connection for a valid command of the claim did not resume the claim session (client %s server %s resumed %v/%v session %q)", id, errStr(r.C.Err), errStr(r.S.Err), r.C.Resumed, r.S.Resumed, gotSid)
			}
		}
	}
	res.Outcome("ok")
}

func c16Corrupt(res *vlib.Result, pos int) {
	res.Evals++
	res.Nontrivial++
	M := security.NewSessionCache()
	mc, err := security.MintClaimSession(M, security.MintClaimOptions{Sinful: c16Sinfuls[2], Birthdate: 1, SequenceNum: 2})
	if err != nil {
		res.Violate("C16/mint-error", "%v", err)
		return
	}
	claim := mc.ClaimID()
	secret := security.ParseClaimIDStrict(claim).SecSessionKey()
	if pos >= len(secret) {
		res.Skipped++
		return
	}
	off := len(claim) - len(secret) + pos
	orig := claim[off]
	// substitutes: another digit, the same letter in the other case, the next character, a
	// non-hex letter, a hex letter in upper case, a blank
	subs := []byte{'0', '1', orig ^ 0x20, orig + 1, 'z', 'F', 'a', ' '}
	seen := map[byte]bool{orig: true}
	for _, sub := range subs {
		if seen[sub] || (sub == orig^0x20 && !(orig|0x20 >= 'a' && orig|0x20 <= 'z')) {
			continue
		}
		seen[sub] = true
		c16CorruptOne(res, M, claim, off, sub, pos)
	}
	res.Outcome("corrupt-secret-rejected")
}

func c16CorruptOne(res *vlib.Result, M *security.SessionCache, claim string, off int, sub byte, pos int) {
	I := security.NewSessionCache()
	b := []byte(claim)
	b[off] = sub
	res.Transitions++
	sid, err := security.ImportClaimSession(I, string(b), security.ClaimSessionOptions{PeerAddr: c16Sinfuls[2]})
	if err != nil {
		res.Outcome("corrupt-import-rejected")
		return
	}
	for _, dir := range []int{0, 1} {
		cc := baseCfg(security.SecurityOptional, security.SecurityOptional, nil, []security.CryptoMethod{security.CryptoAES}, false)
		sc := baseCfg(security.SecurityOptional, security.SecurityOptional, nil, []security.CryptoMethod{security.CryptoAES}, true)
		cc.SessionID, cc.Command = sid, 443
		if dir == 0 {
			cc.SessionCache, sc.SessionCache = I, M
		} else {
			cc.SessionCache, sc.SessionCache = M, I
		}
		r := hsRun(hsOpts{ClientCfg: cc, ServerCfg: sc, App: true})
		if len(r.S.AppGot) > 0 || len(r.C.AppGot) > 0 {
			res.Violate("C16/wrong-secret-accepted", "secret character %d (%q) replaced by %q, direction %d: application message accepted", pos, claim[off], sub, dir)
		}
	}
}

// c16History: a sequence of imports into ONE importer cache (the importer's
// cache is not fresh when the claim id arrives): each element is the intact
// claim id, a copy with one secret character altered, or the intact id of a
// second claim of the same minter. After the history, if the last import of
// claim 1 was the intact id, minter and importer must hold the same key and a
// resumption must work in both directions.
func c16History(res *vlib.Result, hist []string) {
	res.Evals++
	res.Nontrivial++
	id := "imports into one cache: " + strings.Join(hist, " -> ")
	M, I := security.NewSessionCache(), security.NewSessionCache()
	sinful := c16Sinfuls[2]
	// both claims list the same command and name the same peer: the command map of either cache
	// can hold only one of them for (peer, 443), the explicitly named session must win
	const impAddr = "<10.9.9.9:7777>"
	mc, err := security.MintClaimSession(M, security.MintClaimOptions{Sinful: sinful, Birthdate: 1, SequenceNum: 2, ValidCommands: []int{443}, PeerAddr: impAddr})
	mc2, err2 := security.MintClaimSession(M, security.MintClaimOptions{Sinful: sinful, Birthdate: 1, SequenceNum: 3, ValidCommands: []int{443}, PeerAddr: impAddr})
	if err != nil || err2 != nil {
		res.Violate("C16/mint-error", "%v %v", err, err2)
		return
	}
	claim := mc.ClaimID()
	secret := security.ParseClaimIDStrict(claim).SecSessionKey()
	alter := func(pos int) string {
		b := []byte(claim)
		off := len(claim) - len(secret) + pos
		if b[off] == '0' {
			b[off] = '1'
		} else {
			b[off] = '0'
		}
		return string(b)
	}
	lastIntact := false
	for _, h := range hist {
		var c string
		switch h {
		case "intact":
			c, lastIntact = claim, true
		case "altered@0":
			c, lastIntact = alter(0), false
		case "altered@last":
			c, lastIntact = alter(len(secret)-1), false
		case "other-claim":
			c = mc2.ClaimID()
		}
		sid, err := security.ImportClaimSession(I, c, security.ClaimSessionOptions{PeerAddr: sinful})
		res.Transitions++
		if h == "intact" && (err != nil || sid != mc.SessionID()) {
			res.Violate("C16/history/import-error", "%s: importing the intact claim id failed: %v (sid %q)", id, err, sid)
			return
		}
	}
	if !lastIntact {
		res.Outcome("history-ends-with-altered-copy")
		return
	}
	sid := mc.SessionID()
	me, ok1 := M.Lookup(sid)
	ie, ok2 := I.Lookup(sid)
	if !ok1 || !ok2 {
		res.Violate("C16/history/entry-missing", "%s: minter has=%v importer has=%v", id, ok1, ok2)
		return
	}
	if me.KeyInfo() == nil || ie.KeyInfo() == nil || !bytes.Equal(me.KeyInfo().Data, ie.KeyInfo().Data) {
		res.Violate("C16/history/key-differs", "%s: after importing the intact claim id the importer's key differs from the minter's", id)
	}
	if !me.Expiration().Equal(ie.Expiration()) {
		res.Violate("C16/history/expiry-differs", "%s: minter %v importer %v", id, me.Expiration(), ie.Expiration())
	}
	for dir, caches := range [][2]*security.SessionCache{{I, M}, {M, I}} {
		cc := baseCfg(security.SecurityOptional, security.SecurityOptional, nil, []security.CryptoMethod{security.CryptoAES}, false)
		sc := baseCfg(security.SecurityOptional, security.SecurityOptional, nil, []security.CryptoMethod{security.CryptoAES}, true)
		cc.SessionID, cc.Command = sid, 443
		cc.PeerName = []string{sinful, impAddr}[dir]
		cc.SessionCache, sc.SessionCache = caches[0], caches[1]
		r := hsRun(hsOpts{ClientCfg: cc, ServerCfg: sc, App: true})
		if r.C.Err != nil || r.S.Err != nil || !r.C.Resumed || !r.S.Resumed || string(r.S.AppGot) != "ping-from-client" || string(r.C.AppGot) != "pong-from-server" {
			res.Violate("C16/history/resumption-failed", "%s, direction %d: client %s server %s resumed %v/%v", id, dir, errStr(r.C.Err), errStr(r.S.Err), r.C.Resumed, r.S.Resumed)
		} else if r.C.Neg.SessionId != sid || r.S.Neg.SessionId != sid {
			res.Violate("C16/history/rode-another-session", "%s, direction %d: the dialer named session %q; the connection rides %q (server: %q)", id, dir, sid, r.C.Neg.SessionId, r.S.Neg.SessionId)
		}
	}
	res.Outcome("history-ok")
}

func C16Plan() *vlib.Plan {
	p := &vlib.Plan{
		Property: "C16", Level: "exploration",
		Rule:   "E-ENUM full product: sinful in {plain, with params, with sock=, with embedded '#', bracketed IPv6, with '#[' inside} x Encryption/Integrity in {unset, true, false}^2 x cipher list in {'', AES, AESGCM, 'AES,BLOWFISH', 'AES,3DES,BLOWFISH'} x ValidCommands in {none, [443], [443,444]} x lifetime in {0, 60 s, 20 years, 100 years (expiry beyond 2^31-1 s)} x version in {'', long, short} x direction (importer dials / minter dials) x tag; each pair: cache entries compared (id, key, Encryption/Integrity/cipher/commands, expiry), public form searched for the secret, policy text render/parse fixed point, then a real resumption handshake (no negotiation on the wire) with ping/pong both ways, by session id and - when the claim lists commands - by command (the dialer's cache must route tag, peer address and command to the claim session), for the claim's own commands and for additionally mapped ones (ExtraValidCommands 44, 4, 60021 next to a list '443,444'). Plus, for every position of the secret, its replacement by up to 7 substitutes (another digit, the same letter in the other case, the next character, a non-hex letter, an upper-case hex letter, a blank) in both directions, and every history of <= 3 (thorough 4) imports into ONE importer cache over {intact id, id with the first / last secret character altered, intact id of a second claim}: whenever the last import of the claim is the intact id, key and expiry must equal the minter's and resumption must work both ways. Plus the library client (client.ConnectAndAuthenticateWithConfig) over loopback sockets: 8 address templates x {direct, scripted shared_port front end} x direction x tag, by command: the claim session is resumed with ping/pong. Non-trivial = mint succeeded; ids distinct by construction.",
		Assume: []string{"peer caches are private per case (no process-global state involved)"},
	}
	p.Gen = func(tier string, yield func(vlib.Case)) {
		nCorrupt := 64
		p.Bounds = map[string]any{"secret_positions": nCorrupt}
		for si := range c16Sinfuls {
			for ci := range c16Ciphers {
				for ver := range c16Versions {
					si, ci, ver := si, ci, ver
					yield(vlib.Case{ID: fmt.Sprintf("mint/sinful=%d/ciphers=%d/ver=%d", si, ci, ver), Run: func() *vlib.Result {
						res := &vlib.Result{}
						for enc := 0; enc < 3; enc++ {
							for integ := 0; integ < 3; integ++ {
								for vc := 0; vc < 3; vc++ {
									for life := 0; life < 4; life++ {
										for dir := 0; dir < 2; dir++ {
											for tag := 0; tag < 2; tag++ {
												if life >= 2 && (vc != 1 || tier != "thorough" && (enc != 0 || integ != 0)) {
													continue
												}
												if tier != "thorough" && tag == 1 && (vc != 1 || life != 0) {
													continue
												}
												c16One(res, si, enc, integ, ci, vc, life, ver, dir, tag)
											}
										}
									}
								}
							}
						}
						res.Sample = map[string]any{"sinful": c16Sinfuls[si], "ciphers": c16Ciphers[ci], "version": c16Versions[ver], "pairs": res.Evals}
						return res
					}})
				}
			}
		}
		// the library's own client over real loopback sockets (direct and through a shared_port front end)
		for ti := range c16LibSinfuls {
			ti := ti
			yield(vlib.Case{ID: fmt.Sprintf("library-client/template=%d", ti), Run: func() *vlib.Result {
				res := &vlib.Result{}
				for dir := 0; dir < 2; dir++ {
					for tag := 0; tag < 2; tag++ {
						c16LibOne(res, ti, dir, tag)
					}
				}
				res.Sample = map[string]any{"template": c16LibSinfuls[ti].tmpl}
				return res
			}})
		}
		// import histories into one importer cache
		hd := 3
		if tier == "thorough" {
			hd = 4
		}
		ab := []string{"intact", "altered@0", "altered@last", "other-claim"}
		var rec func(h []string)
		rec = func(h []string) {
			if len(h) > 0 {
				hh := append([]string(nil), h...)
				yield(vlib.Case{ID: "import-history/" + strings.Join(hh, ","), Run: func() *vlib.Result {
					res := &vlib.Result{}
					c16History(res, hh)
					return res
				}})
			}
			if len(h) == hd {
				return
			}
			for _, a := range ab {
				rec(append(h, a))
			}
		}
		rec(nil)
		// one case over all positions: the secret is random per mint, so which positions hold a
		// letter (and have an other-case twin) differs from run to run; the set of keys does not
		yield(vlib.Case{ID: "corrupt-secret/all-positions", Run: func() *vlib.Result {
			res := &vlib.Result{}
			for pos := 0; pos < nCorrupt; pos++ {
				c16Corrupt(res, pos)
			}
			return res
		}})
	}
	return p
}
