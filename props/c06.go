package props

// C06 — session resumption requires the key and never revives a dead session.
// E-BFS on the real server-side resumption path: a state is the event history
// reaching it (establish keyed / keyless, legitimate resume, advance virtual
// time, invalidate, sweep), replayed on a fresh cache; states are de-duplicated
// by a canonical key; in every state a battery of scripted resumption requests
// (right/unknown/altered id x right/wrong/no key x reply requested or not x
// same/different source address) and byte-for-byte replays of a recorded
// resumed connection are fired at the real server and judged against a
// reference map of sessions.

import (
	"bytes"
	"fmt"
	"sort"
	"strings"
	"time"

	"github.com/bbockelm/cedar/security"

	"verif/netsim"
	"verif/refcodec"
	"verif/vlib"
)

const (
	c06Duration = 3600
	c06Lease    = 1800
)

type c06Sess struct {
	sid    string
	key    []byte
	user   string
	authed bool
	exists bool
	exp    int // virtual expiry
	inval  bool
	swept  bool
}

type c06World struct {
	now       int
	K, L, U   c06Sess
	cliCache  *security.SessionCache
	cliCacheL *security.SessionCache
	cliHasK   bool
	res       *vlib.Result
	hist      string
	replayRec []byte // recorded client->server bytes of a legitimate resumed connection
	replayNR  []byte // same for a resumption whose request asked for no reply
	cliCacheU *security.SessionCache
	// claim layout: the keyed session K is not negotiated but minted as a claim session on
	// the server and imported by the client (flagged inherited, finite lifetime, no lease)
	claim    bool
	claimOff bool // ... minted with Encryption and Integrity both switched off in its policy
	tokenL   bool // the authenticated session without a cipher (L) is made by TOKEN, which leaves key bytes behind
	idKnown  bool
}

func (w *c06World) viol(key, f string, a ...any) {
	w.res.Violate("C06/"+key, "history [%s]: "+f, append([]any{w.hist}, a...)...)
}

func (s *c06Sess) live(now int) bool { return s.exists && !s.inval && !s.swept && now <= s.exp }

// c06SrvCache: nil = the servers use the package-global cache; non-nil = every
// server of the world is configured with this cache of its own (handshake
// sessions still land in the global one, resumption consults both). The check
// runs single-threaded (Workers: 1), one world at a time.
var c06SrvCache *security.SessionCache

// c06SrvNever: the servers' own policy is NEVER for encryption and integrity (they hold keyed
// sessions made another way - claim sessions - whose key must be applied all the same).
var c06SrvNever bool

func c06ServerCfg(cipher security.CryptoMethod, enc security.SecurityLevel) *security.SecurityConfig {
	c := baseCfg(security.SecurityRequired, enc, []security.AuthMethod{mCTB}, []security.CryptoMethod{cipher}, true)
	c.SessionCache = c06SrvCache
	if c06SrvCache != nil {
		// in this layout the server also maps the authenticated identity to another
		// fully-qualified user; the mapped identity is what the handshake establishes
		c.PostAuthPolicy = func(u, peer string, authed, enc bool) (string, []int) {
			if authed {
				return "mapped-" + u + "@pool.example", []int{5}
			}
			return "", []int{5}
		}
	}
	c.SessionDuration, c.SessionLease = c06Duration, c06Lease
	if c06SrvNever {
		c.Encryption, c.Integrity = security.SecurityNever, security.SecurityNever
	}
	return c
}

func (w *c06World) establishU() bool {
	cc := baseCfg(security.SecurityNever, security.SecurityNever, nil, nil, false)
	sc := baseCfg(security.SecurityNever, security.SecurityNever, nil, nil, true)
	sc.SessionDuration, sc.SessionLease = c06Duration, c06Lease
	sc.SessionCache = c06SrvCache
	cc.SessionCache, cc.Command = w.cliCacheU, 5
	r := hsRun(hsOpts{ClientCfg: cc, ServerCfg: sc, App: true})
	if r.C.Err != nil || r.S.Err != nil || r.S.Neg.Authentication || len(r.S.Neg.GetSharedSecret()) != 0 {
		w.viol("harness-establish", "cannot establish the unauthenticated plaintext session: %v / %v", r.C.Err, r.S.Err)
		return false
	}
	w.U = c06Sess{sid: r.S.Neg.SessionId, exists: true, exp: w.now + c06Duration}
	return true
}

func (w *c06World) establishClaim() bool {
	const srv = "<" + hsServerAddr + ">"
	mo := security.MintClaimOptions{Sinful: srv, Birthdate: 1700000000, SequenceNum: 1, Lifetime: c06Duration * time.Second, ValidCommands: []int{5}}
	if w.claimOff {
		off := false
		mo.Encryption, mo.Integrity = &off, &off
	}
	mc, err := security.MintClaimSession(security.GetSessionCache(), mo)
	if err != nil {
		w.viol("harness-establish", "mint: %v", err)
		return false
	}
	e, ok := security.GetSessionCache().Lookup(mc.SessionID())
	if !ok || e.KeyInfo() == nil || len(e.KeyInfo().Data) != 32 {
		w.viol("harness-establish", "minted claim session has no 32-byte key")
		return false
	}
	if _, err := security.ImportClaimSession(w.cliCache, mc.ClaimID(), security.ClaimSessionOptions{PeerAddr: srv}); err != nil {
		w.viol("harness-establish", "import: %v", err)
		return false
	}
	w.K = c06Sess{sid: mc.SessionID(), key: append([]byte(nil), e.KeyInfo().Data...), exists: true, exp: w.now + c06Duration}
	w.cliHasK = true
	return true
}

func (w *c06World) establish(keyed bool) bool {
	if keyed && w.claim {
		return w.establishClaim()
	}
	var cc, sc *security.SecurityConfig
	if keyed {
		cc = baseCfg(security.SecurityRequired, security.SecurityRequired, []security.AuthMethod{mCTB}, []security.CryptoMethod{security.CryptoAES}, false)
		sc = c06ServerCfg(security.CryptoAES, security.SecurityRequired)
		cc.SessionCache = w.cliCache
	} else {
		cc = baseCfg(security.SecurityRequired, security.SecurityOptional, []security.AuthMethod{mCTB}, []security.CryptoMethod{security.CryptoAES}, false)
		sc = c06ServerCfg(security.CryptoBlowfish, security.SecurityOptional)
		if w.tokenL {
			cc.AuthMethods, sc.AuthMethods = []security.AuthMethod{mTOK}, []security.AuthMethod{mTOK}
			cc.Token = goodToken("alice@verif.domain")
		}
		cc.SessionCache = w.cliCacheL
	}
	cc.Command = 5
	r := hsRun(hsOpts{ClientCfg: cc, ServerCfg: sc, App: true})
	if r.C.Err != nil || r.S.Err != nil {
		w.viol("harness-establish", "cannot establish (keyed=%v): %v / %v", keyed, r.C.Err, r.S.Err)
		return false
	}
	s := c06Sess{sid: r.S.Neg.SessionId, key: append([]byte(nil), r.S.Neg.GetSharedSecret()...), user: r.S.Neg.User, authed: r.S.Neg.Authentication, exists: true, exp: w.now + c06Duration}
	if keyed {
		if len(s.key) != 32 || r.C.Resumed {
			w.viol("harness-establish", "keyed establishment produced key len %d resumed=%v", len(s.key), r.C.Resumed)
			return false
		}
		w.K, w.cliHasK = s, true
	} else {
		if w.tokenL {
			// the TOKEN exchange leaves a shared secret behind; no cipher was agreed, so nothing on a
			// resumed connection can be protected by it: for the reference this session has no key
			s.key = nil
		}
		if len(s.key) != 0 {
			w.viol("harness-establish", "keyless establishment has a key")
			return false
		}
		w.L = s
	}
	return true
}

// advance shifts virtual time: every cached entry is re-stored with its
// expiration moved back by d seconds (public API only).
func (w *c06World) advance(d int) {
	w.now += d
	for _, c := range []*security.SessionCache{security.GetSessionCache(), w.cliCache, w.cliCacheL, w.cliCacheU, c06SrvCache} {
		if c == nil {
			continue
		}
		for _, e := range c.Snapshot() {
			if e.Expiration().IsZero() {
				continue
			}
			ne := security.NewSessionEntry(e.ID(), e.Addr(), e.KeyInfo(), e.Policy(), e.Expiration().Add(-time.Duration(d)*time.Second), e.Lease(), e.Tag())
			ne.SetInherited(e.IsInherited())
			ne.SetLastPeerVersion(e.LastPeerVersion())
			c.Store(ne)
		}
	}
}

type c06Req struct {
	sid     string
	keyKind string // right, wrong, none
	key     []byte
	reply   bool
	addr    string
	label   string
	raw     []byte // verbatim replay bytes (instead of a scripted request)
	strict  bool   // probe the key-less session U at the authentication-REQUIRED server
}

type c06Obs struct {
	replyCode  string
	gotReply   bool
	appFromSrv []byte
	appProt    bool
	srvFrames  [][]byte
}

func c06Requester(q c06Req, o *c06Obs) func(*netsim.End) error {
	return func(end *netsim.End) error {
		p := &peerConn{end: end}
		if q.raw != nil {
			if _, err := end.Write(q.raw); err != nil {
				return err
			}
			for i := 0; i < 4; i++ {
				h, err := p.readN(5)
				if err != nil {
					return nil
				}
				n := int(h[1])<<24 | int(h[2])<<16 | int(h[3])<<8 | int(h[4])
				hdr := append([]byte(nil), h...)
				b, err := p.readN(n)
				if err != nil {
					return nil
				}
				o.srvFrames = append(o.srvFrames, append(hdr, b...))
			}
			return nil
		}
		ad := newWireAd()
		ad.setI("Command", 5).setS("UseSession", "YES").setS("Sid", q.sid)
		if q.reply {
			ad.set("ResumeResponse", "true")
		}
		ad.setS("RemoteVersion", "$CondorVersion: 25.4.0 2025-10-31 BuildID: 1 $").setS("CryptoMethods", "AES")
		if err := p.sendMsg(append(refcodec.EncInt(dcAuthenticate), ad.encode(false)...), false); err != nil {
			return err
		}
		if q.reply {
			m, err := p.recvMsg()
			if err != nil {
				return nil
			}
			o.gotReply = true
			o.replyCode = (&wireReader{b: m}).ad().str("ReturnCode")
			if o.replyCode != "AUTHORIZED" {
				return nil
			}
		}
		switch q.keyKind {
		case "right", "wrong":
			p.enableCrypto(q.key)
			if err := p.sendMsg([]byte("ping-from-requester"), false); err != nil {
				return nil
			}
		case "none":
			if err := p.sendMsg([]byte("CLEARTEXT-APP-DATA"), false); err != nil {
				return nil
			}
		}
		m, err := p.recvMsg()
		if err != nil {
			return nil
		}
		o.appFromSrv = m
		o.appProt = p.encOn && p.ProtIn > 0 && len(p.PlainAfterKey) == 0
		return nil
	}
}

// probe fires one resumption request at the real server and judges it.
func (w *c06World) probe(q c06Req, target *c06Sess) (clientWire []byte) {
	w.res.Transitions++
	o := &c06Obs{}
	sc := c06ServerCfg(security.CryptoAES, security.SecurityOptional)
	if target == &w.U && !q.strict {
		// the unauthenticated plaintext session is probed at a server with the policy
		// that created it (an authentication-REQUIRED server refuses it on policy alone)
		sc = baseCfg(security.SecurityNever, security.SecurityNever, nil, nil, true)
		sc.SessionDuration, sc.SessionLease = c06Duration, c06Lease
		sc.SessionCache = c06SrvCache
	}
	if w.claim && (target == &w.K || q.raw != nil) {
		sc.Authentication = security.SecurityOptional // claim sessions never ran an authentication exchange
	}
	if q.keyKind == "right" && !q.reply && q.raw == nil && target == &w.K {
		// this probe goes to a server whose own policy leaves authentication OPTIONAL, so
		// that the restored authentication status is observed rather than pre-judged by
		// the server's REQUIRED-policy check (which the reply-requesting probe exercises)
		sc.Authentication = security.SecurityOptional
	}
	addr := q.addr
	r := hsRun(hsOpts{ServerCfg: sc, ClientScript: c06Requester(q, o), App: true, ClientAddr: addr})
	resumed := r.S.Err == nil
	if target != nil && target.exists && !target.inval && !target.swept && abs(w.now-target.exp) < 30 {
		w.res.Outcome("boundary-skip") // virtual time within 30 s of the expiry: no judgement
		return nil
	}
	mayResume := target != nil && target.live(w.now) && len(target.key) == 32
	if mayResume && q.keyKind == "right" && q.raw == nil {
		w.res.Nontrivial += 0
	}
	what := "unknown"
	if target != nil {
		switch {
		case !target.exists:
			what = "never-established"
		case target.inval:
			what = "invalidated"
		case target.swept:
			what = "swept"
		case w.now > target.exp:
			what = "expired"
		case len(target.key) != 32:
			what = "keyless"
		default:
			what = "live"
		}
	}
	if r.S.Panic != "" {
		w.viol("server-panic/"+q.label, "%s", r.S.Panic)
		return nil
	}
	defer func() {
		if resumed {
			clientWire = bytes.Join(r.C2S, nil)
		}
	}()
	if resumed && !mayResume {
		w.viol(fmt.Sprintf("resumed-%s-session/%s", what, q.label), "server resumed a session that is %s (request %s, virtual now %d, expiry %d); reported Authentication=%v Encryption=%v", what, q.label, w.now, expOf(target), r.S.Neg.Authentication, r.S.Neg.Encryption)
		w.res.Outcome("finding-resumed-" + what)
	}
	if !resumed && q.reply && q.raw == nil {
		if !o.gotReply || o.replyCode != "SID_NOT_FOUND" {
			w.viol("refused-without-telling/"+q.label, "server refused the resumption (%s) but the requester that asked for a reply got %q (got any reply: %v)", errStr(r.S.Err), o.replyCode, o.gotReply)
		}
	}
	if resumed {
		hasKey := q.keyKind == "right" && q.raw == nil
		if !hasKey {
			if len(r.S.AppGot) > 0 {
				kind := "requester-without-key"
				if q.raw != nil {
					kind = "replayed-connection"
				}
				w.viol(fmt.Sprintf("app-data-accepted/%s/%s", kind, q.label), "server handed application data %q to its caller although the requester does not hold the session key (%s)", trunc(r.S.AppGot), q.label)
				w.res.Outcome("finding-app-accepted")
			}
			// what the server wrote after the reply must be protected under the session key
			frames := r.S2C
			if q.reply && len(frames) > 0 {
				frames = frames[1:]
			}
			if framesContain(frames, "pong-from-server") {
				w.viol("server-wrote-cleartext/"+q.label, "bytes written by the server after the resumption reply are readable without the key")
			}
		} else {
			if string(r.S.AppGot) != "ping-from-requester" || string(o.appFromSrv) != "pong-from-server" || !o.appProt {
				w.viol("valid-resumption-broken/"+q.label, "requester with the right id and key: server got %q (%s), requester got %q protected=%v", trunc(r.S.AppGot), errStr(r.S.AppErr), trunc(o.appFromSrv), o.appProt)
			}
			if w.claim && target == &w.K && !w.idKnown {
				// a claim session's identity is fixed at minting, not by a handshake the harness
				// saw: the first live resumption defines it, every later one must repeat it
				target.user, target.authed, w.idKnown = r.S.Neg.User, r.S.Neg.Authentication, true
			}
			if r.S.Neg.User != target.user || r.S.Neg.Authentication != target.authed {
				w.viol("identity-not-restored/"+q.label, "resumed session reports user %q authenticated=%v, original handshake established %q / %v", r.S.Neg.User, r.S.Neg.Authentication, target.user, target.authed)
			}
			if !r.S.Neg.Encryption || !r.S.Stream.IsEncrypted() {
				w.viol("resumed-not-encrypted/"+q.label, "resumed keyed session is not encrypted")
			}
		}
		if mayResume && !(w.claim && target == &w.K) {
			target.exp = w.now + c06Lease // RenewLease (a claim session has no lease: its expiry stays)
		}
		w.res.Outcome("resumed-" + what)
	} else {
		w.res.Outcome("refused-" + what)
	}
	return nil
}

func abs(x int) int {
	if x < 0 {
		return -x
	}
	return x
}

func expOf(s *c06Sess) int {
	if s == nil {
		return -1
	}
	return s.exp
}

func alter(s string, i int) string {
	b := []byte(s)
	if b[i] == 'x' {
		b[i] = 'y'
	} else {
		b[i] = 'x'
	}
	return string(b)
}

// probes fires the whole battery at the current state.
func (w *c06World) probes(full bool) {
	wrong := bytes.Repeat([]byte{0x5a}, 32)
	for _, reply := range []bool{true, false} {
		for _, addr := range []string{hsClientAddr, "10.9.9.9:1234"} {
			tag := fmt.Sprintf("reply=%v/addr=%s", reply, map[bool]string{true: "same", false: "other"}[addr == hsClientAddr])
			if w.K.exists {
				// do not fire the state-changing right-key request here (it is an event)
				w.probe(c06Req{sid: w.K.sid, keyKind: "wrong", key: wrong, reply: reply, addr: addr, label: "K-wrongkey/" + tag}, &w.K)
				w.probe(c06Req{sid: w.K.sid, keyKind: "none", reply: reply, addr: addr, label: "K-nokey/" + tag}, &w.K)
			}
			if w.L.exists {
				ln := "L"
				if w.tokenL {
					ln = "Ltoken"
				}
				w.probe(c06Req{sid: w.L.sid, keyKind: "none", reply: reply, addr: addr, label: ln + "-idonly/" + tag}, &w.L)
				w.probe(c06Req{sid: w.L.sid, keyKind: "wrong", key: wrong, reply: reply, addr: addr, label: ln + "-wrongkey/" + tag}, &w.L)
			}
			if w.U.exists {
				w.probe(c06Req{sid: w.U.sid, keyKind: "none", reply: reply, addr: addr, label: "U-idonly/" + tag}, &w.U)
				w.probe(c06Req{sid: w.U.sid, keyKind: "none", reply: reply, addr: addr, label: "U-idonly-strict-server/" + tag, strict: true}, &w.U)
			}
			w.probe(c06Req{sid: "no-such-session:1:2:3", keyKind: "none", reply: reply, addr: addr, label: "unknown/" + tag}, nil)
		}
	}
	if full && w.K.exists {
		for i := 0; i < len(w.K.sid); i++ {
			w.probe(c06Req{sid: alter(w.K.sid, i), keyKind: "right", key: w.K.key, reply: true, addr: hsClientAddr, label: "K-altered-id"}, nil)
		}
	}
	for ri, rec := range [][]byte{w.replayRec, w.replayNR} {
		if rec == nil {
			continue
		}
		kind := "client-to-server"
		if ri == 1 {
			kind = "no-reply-request"
		}
		fr, _ := refcodec.ParseFrames(rec)
		for cut := 1; cut <= len(fr); cut++ {
			end := len(rec)
			if cut < len(fr) {
				end = fr[cut].Off
			}
			lab := "whole"
			if cut < len(fr) {
				lab = fmt.Sprintf("first-%d-frames", cut)
			}
			w.probe(c06Req{raw: rec[:end], reply: ri == 0, addr: hsClientAddr, label: "replay/" + kind + "/" + lab}, &w.K)
		}
	}
}

var c06Events = []string{"estK", "estL", "estU", "resK-right", "resK-right-noreply", "legitK", "adv890", "adv1860", "adv3660", "invalK", "invalL", "sweep"}

func (w *c06World) apply(ev string) (enabled bool) {
	switch ev {
	case "estK":
		if w.K.exists {
			return false
		}
		return w.establish(true)
	case "estL":
		if w.L.exists {
			return false
		}
		return w.establish(false)
	case "estU":
		if w.U.exists {
			return false
		}
		return w.establishU()
	case "resK-right":
		if !w.K.exists {
			return false
		}
		w.probe(c06Req{sid: w.K.sid, keyKind: "right", key: w.K.key, reply: true, addr: "10.9.9.9:1234", label: "K-right/reply=true/addr=other"}, &w.K)
		return true
	case "resK-right-noreply":
		if !w.K.exists || w.replayNR != nil {
			return false
		}
		live := w.K.live(w.now)
		rec := w.probe(c06Req{sid: w.K.sid, keyKind: "right", key: w.K.key, reply: false, addr: hsClientAddr, label: "K-right/reply=false/addr=same"}, &w.K)
		if live && rec != nil {
			w.replayNR = rec
		}
		return true
	case "legitK":
		if !w.K.exists || !w.cliHasK {
			return false
		}
		cc := baseCfg(security.SecurityRequired, security.SecurityRequired, []security.AuthMethod{mCTB}, []security.CryptoMethod{security.CryptoAES}, false)
		cc.SessionCache, cc.Command = w.cliCache, 5
		sc := c06ServerCfg(security.CryptoAES, security.SecurityRequired)
		if w.claim {
			// the claim's owner names the session explicitly, and neither side insists on an
			// authentication exchange (a claim session never had one)
			cc = baseCfg(security.SecurityOptional, security.SecurityRequired, nil, []security.CryptoMethod{security.CryptoAES}, false)
			cc.SessionCache, cc.Command, cc.SessionID = w.cliCache, 5, w.K.sid
			sc.Authentication = security.SecurityOptional
		}
		r := hsRun(hsOpts{ClientCfg: cc, ServerCfg: sc, App: true})
		w.res.Transitions++
		live := w.K.live(w.now)
		if abs(w.now-w.K.exp) < 30 {
			w.cliHasK = r.C.Err == nil
			return true
		}
		if live {
			if r.C.Err != nil || r.S.Err != nil || !r.C.Resumed || !r.S.Resumed {
				// the client may have dropped its copy on an earlier failed attempt; only a
				// resumption that was attempted and refused while the session is live counts
				if r.C.Resumed || r.S.Resumed || IsResumptionErr(r.C.Err) {
					w.viol("legit-resumption-refused", "live keyed session: client err=%s server err=%s", errStr(r.C.Err), errStr(r.S.Err))
				}
			} else {
				if string(r.S.AppGot) != "ping-from-client" || string(r.C.AppGot) != "pong-from-server" {
					w.viol("legit-resumption-no-traffic", "resumed both sides but ping/pong failed: %s / %s", errStr(r.C.AppErr), errStr(r.S.AppErr))
				}
				if w.claim && !w.idKnown {
					w.K.user, w.K.authed, w.idKnown = r.S.Neg.User, r.S.Neg.Authentication, true
				}
				if r.S.Neg.User != w.K.user || r.S.Neg.Authentication != (w.K.authed || !w.claim) || r.C.Neg.User == "" && w.K.user != "" && !w.claim {
					w.viol("identity-not-restored/legit", "server user %q auth %v; original %q", r.S.Neg.User, r.S.Neg.Authentication, w.K.user)
				}
				if !w.claim {
					w.K.exp = w.now + c06Lease
				}
				if w.replayRec == nil {
					w.replayRec = bytes.Join(r.C2S, nil)
				}
			}
		} else {
			if r.S.Err == nil && r.S.Resumed {
				w.viol("resumed-dead-session/legit-client", "server resumed a session that is not live for the legitimate client")
			}
			w.cliHasK = false // client invalidates on SID_NOT_FOUND
		}
		if r.C.Err != nil {
			w.cliHasK = false
		}
		return true
	case "adv890", "adv1860", "adv3660":
		d := 0
		fmt.Sscanf(ev[3:], "%d", &d)
		if !w.K.exists && !w.L.exists && !w.U.exists {
			return false
		}
		w.advance(d)
		return true
	case "invalK":
		if !w.K.exists || w.K.inval {
			return false
		}
		security.GetSessionCache().Invalidate(w.K.sid)
		w.K.inval = true
		return true
	case "invalL":
		if !w.L.exists || w.L.inval {
			return false
		}
		security.GetSessionCache().Invalidate(w.L.sid)
		w.L.inval = true
		return true
	case "sweep":
		if !w.K.exists && !w.L.exists {
			return false
		}
		security.GetSessionCache().InvalidateExpired()
		if c06SrvCache != nil {
			c06SrvCache.InvalidateExpired()
		}
		for _, s := range []*c06Sess{&w.K, &w.L, &w.U} {
			if s.exists && w.now > s.exp {
				s.swept = true
			}
		}
		return true
	}
	panic(ev)
}

func IsResumptionErr(err error) bool { return err != nil && security.IsSessionResumptionError(err) }

func (w *c06World) stateKey() string {
	f := func(s *c06Sess) string {
		switch {
		case !s.exists:
			return "none"
		case s.inval:
			return "invalidated"
		case s.swept:
			return "swept"
		case w.now > s.exp:
			return "expired"
		}
		rem := s.exp - w.now
		b := ">3660"
		switch {
		case rem <= 890:
			b = "<=890"
		case rem <= 1860:
			b = "<=1860"
		case rem <= 3660:
			b = "<=3660"
		}
		return "live" + b
	}
	return fmt.Sprintf("K=%s L=%s U=%s cliHasK=%v rec=%v/%v", f(&w.K), f(&w.L), f(&w.U), w.cliHasK, w.replayRec != nil, w.replayNR != nil)
}

func c06Replay(hist []string, res *vlib.Result, layout int) *c06World {
	ownCache := layout == 1
	security.ClearSessionCache()
	w := &c06World{cliCache: security.NewSessionCache(), cliCacheL: security.NewSessionCache(), cliCacheU: security.NewSessionCache(), res: res, hist: strings.Join(hist, " ")}
	c06SrvCache = nil
	if ownCache {
		c06SrvCache = security.NewSessionCache()
		w.hist = "servers with a SessionCache of their own: " + w.hist
	}
	w.tokenL = layout == 5
	if w.tokenL {
		w.hist = "(the authenticated cipher-less session is made by TOKEN) " + w.hist
	}
	c06SrvNever = layout == 4
	if c06SrvNever {
		w.hist = "(servers whose own policy is Encryption=NEVER, Integrity=NEVER) " + w.hist
	}
	if layout == 2 || layout == 3 || layout == 4 {
		w.claim = true
		w.hist = "keyed session minted/imported as a claim session: " + w.hist
	}
	if layout == 3 {
		w.claimOff = true
		w.hist = "(its policy says Encryption=NO, Integrity=NO) " + w.hist
	}
	for _, ev := range hist {
		if !w.apply(ev) {
			return nil
		}
	}
	return w
}

func c06BFS(depth int, res *vlib.Result, layout int) {
	type node struct{ hist []string }
	seen := map[string]bool{}
	frontier := []node{{nil}}
	seen["K=none L=none U=none cliHasK=false rec=false/false"] = true
	res.States = append(res.States, "K=none L=none U=none cliHasK=false rec=false/false")
	firstKLive := true
	for d := 0; d <= depth && len(frontier) > 0; d++ {
		var next []node
		for _, n := range frontier {
			// probe battery in this state
			w := c06Replay(n.hist, res, layout)
			if w == nil {
				continue
			}
			res.Evals++
			if w.K.exists || w.L.exists {
				res.Nontrivial++
			}
			full := firstKLive && w.K.live(w.now)
			if full {
				firstKLive = false
			}
			w.probes(full)
			if d == depth {
				continue
			}
			for _, ev := range c06Events {
				h := append(append([]string{}, n.hist...), ev)
				w2 := c06Replay(h, res, layout)
				if w2 == nil {
					continue
				}
				res.Transitions++
				k := w2.stateKey()
				if !seen[k] {
					seen[k] = true
					res.States = append(res.States, k)
					next = append(next, node{h})
				}
			}
		}
		frontier = next
	}
	ks := make([]string, 0, len(seen))
	for k := range seen {
		ks = append(ks, k)
	}
	sort.Strings(ks)
	res.Sample = map[string]any{"depth": depth, "canonical_states": len(seen), "example_states": ks[:min(6, len(ks))]}
}

func C06Plan() *vlib.Plan {
	p := &vlib.Plan{
		Property: "C06", Level: "model_checking", Workers: 1,
		Rule:   "E-BFS on the real server resumption path. Events: establish a keyed session (real handshake), establish a key-less session (no common cipher), scripted resumption with the right id+key from another address, legitimate client resumption, advance virtual time by lease/2, lease+60, duration+60, invalidate K / L, sweep expired. A state is the event history replayed on a cleared cache; canonical key = (status and remaining-lifetime bucket of K and L, client still holds K, replay recorded). In EVERY state a battery of scripted requests is fired: {K, L, unknown id} x {wrong key, no key} x {reply requested, not} x {same, different source address}, every single-character alteration of a live id (once), and byte-for-byte replays (whole and truncated at every frame boundary) of a recorded legitimate resumed connection. The whole search runs six times (the last to depth 4, with the authenticated cipher-less session made by TOKEN instead of CLAIMTOBE): with the keyed session minted/imported as a claim session (inherited flag, finite lifetime, no lease) instead of negotiated, once with the default policy, once minted with Encryption and Integrity off, once held by servers whose own policy is Encryption NEVER / Integrity NEVER (it still carries a key, and a resumed connection is protected by it); servers on the package-global cache, and servers configured with a SessionCache of their own and an identity-mapping PostAuthPolicy (sessions are invalidated through the package API, swept in both). Plus late imports: a claim id whose embedded deadline lies {20 years, a day, an hour, 2 min} in the past, {2 min, an hour} ahead or is absent x importer fallback duration {none, 1 h} x {imported once, twice} is registered on the server and then resumed by a requester holding id and key: resumed iff the deadline has not passed. Plus sessions established under all 4x4 authentication levels x 3 method lists and resumed by the real client: both sides report the authentication status, identity and encryption the original handshake established. Oracle = reference map id -> {key?, expiry, invalidated}. traces = states replayed; transitions = events + probes executed.",
		Assume: []string{"virtual time = re-storing every cache entry with its expiration moved back (public API), margins of 60 s against real time", "single process, sequential (the server-side cache is process-global)"},
	}
	p.Gen = func(tier string, yield func(vlib.Case)) {
		D := 4
		if tier == "thorough" {
			D = 6
		}
		p.Bounds = map[string]any{"history_depth": D, "events": c06Events}
		yield(vlib.Case{ID: fmt.Sprintf("bfs/depth=%d", D), Run: func() *vlib.Result {
			res := &vlib.Result{}
			c06BFS(D, res, 0)
			return res
		}})
		// the same search with the keyed session minted on the server and imported by the
		// client as a claim session (inherited flag, finite lifetime, no lease)
		yield(vlib.Case{ID: fmt.Sprintf("bfs/claim-session/depth=%d", D), Run: func() *vlib.Result {
			res := &vlib.Result{}
			c06BFS(D, res, 2)
			return res
		}})
		yield(vlib.Case{ID: fmt.Sprintf("bfs/claim-session-enc-and-integrity-off/depth=%d", D), Run: func() *vlib.Result {
			res := &vlib.Result{}
			c06BFS(D, res, 3)
			return res
		}})
		// ... with the authenticated session that has no cipher made by TOKEN (key bytes, no cipher)
		yield(vlib.Case{ID: fmt.Sprintf("bfs/token-cipherless-session/depth=%d", min(D, 4)), Run: func() *vlib.Result {
			res := &vlib.Result{}
			c06BFS(min(D, 4), res, 5)
			return res
		}})
		// ... and with the claim session held by servers whose OWN policy is NEVER / NEVER
		yield(vlib.Case{ID: fmt.Sprintf("bfs/claim-session-at-never-never-server/depth=%d", D), Run: func() *vlib.Result {
			res := &vlib.Result{}
			c06BFS(D, res, 4)
			c06SrvNever = false
			return res
		}})
		c06LateCases(yield)
		c06StatusCases(yield)
		// the same search over servers configured with a session cache of their own
		yield(vlib.Case{ID: fmt.Sprintf("bfs/server-own-cache/depth=%d", D), Run: func() *vlib.Result {
			res := &vlib.Result{}
			c06BFS(D, res, 1)
			return res
		}})
	}
	return p
}
