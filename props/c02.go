package props

// C02 — an encrypted stream delivers only an authentic in-order prefix.
// E-FAULT: a recorded AES-GCM transcript is replayed, with exactly one fault
// (thorough: also every pair of frame-level faults), into a fresh keyed real
// receiver. Oracle: what the receiver hands out before its first error is a
// prefix of the sent messages no longer than the index of the first affected
// message, and the receive sequence ends in an error (never extra data).

import (
	"bytes"
	"context"
	"encoding/binary"
	"fmt"

	"github.com/bbockelm/cedar/message"
	"github.com/bbockelm/cedar/stream"

	"verif/netsim"
	"verif/refcodec"
	"verif/vlib"
)

type c02Transcript struct {
	msgs   [][]byte // application messages
	wire   []byte   // recorded protected bytes of the faulted direction
	frames [][]byte // wire split into frames (header+body)
	other  []byte   // a protected frame of the opposite direction (for splices)
	// the first protected frames of the opposite direction - what the RECEIVER itself
	// sent - for reflection faults: its own frame k handed back at any position
	otherFrames [][]byte
	// payload of every frame of the faulted direction (for the frame-at-a-time receive
	// API): taken from an unfaulted run and checked against msgs (see framesView)
	framePlain [][]byte
	pre        []byte // bytes the receiver must consume before the faulted leg (BA: nothing; see mkRecv)
	dir        string
	long       bool
}

var c02Script = [][][]byte{
	{[]byte("hello "), []byte("wor"), []byte("ld")},
	{[]byte("")},
	{[]byte("ab"), []byte("cdefgh")},
	{[]byte("z")},
}

func c02SendScript(s *stream.Stream, long bool) ([][]byte, error) {
	ctx := context.Background()
	var msgs [][]byte
	for _, m := range c02Script {
		var whole []byte
		for i, f := range m {
			whole = append(whole, f...)
			var err error
			if i == len(m)-1 {
				err = s.SendMessage(ctx, f)
			} else {
				err = s.SendPartialMessage(ctx, f)
			}
			if err != nil {
				return nil, err
			}
		}
		if whole == nil {
			whole = []byte{}
		}
		msgs = append(msgs, whole)
	}
	if long {
		d := payload(9, 5000)
		s.StartMessage()
		if err := s.WriteMessage(ctx, d[:100]); err != nil {
			return nil, err
		}
		if err := s.WriteMessage(ctx, d[100:]); err != nil {
			return nil, err
		}
		if err := s.EndMessage(ctx); err != nil {
			return nil, err
		}
		msgs = append(msgs, d)
	}
	return msgs, nil
}

// c02Record produces the transcript of one direction. For dir "BA" the
// receiver (A) has itself already sent a request that the sender (B) read, so
// both streams have encrypted and decrypted before the faulted leg.
func c02Record(dir string, long bool) (*c02Transcript, func() *stream.Stream, error) {
	ctx := context.Background()
	ab, bb := &netsim.Buf{}, &netsim.Buf{}
	a, b := stream.NewStream(ab), stream.NewStream(bb)
	// Cleartext preamble A->B before the key is installed, as in every real
	// handshake (a session is never keyed without at least the client's
	// cleartext request); it makes the two first-frame AADs asymmetric.
	hello := []byte("client-hello")
	if err := a.SendMessage(ctx, hello); err != nil {
		return nil, nil, err
	}
	preamble := append([]byte(nil), ab.W...)
	ab.W = nil
	bb.R = append([]byte(nil), preamble...)
	if m, err := b.ReceiveCompleteMessage(ctx); err != nil || !bytes.Equal(m, hello) {
		return nil, nil, fmt.Errorf("preamble: %v", err)
	}
	if err := a.SetSymmetricKey(testKey); err != nil {
		return nil, nil, err
	}
	if err := b.SetSymmetricKey(testKey); err != nil {
		return nil, nil, err
	}
	t := &c02Transcript{dir: dir, long: long}
	if dir == "AB" || dir == "AB+secret" {
		// other-direction frame for splices: B sends one message
		if err := b.SendMessage(ctx, []byte("pong")); err != nil {
			return nil, nil, err
		}
		t.other = append([]byte(nil), bb.W...)
		for i := 1; i < 7; i++ {
			if err := b.SendMessage(ctx, []byte(fmt.Sprintf("pong-%d-from-the-receiver", i))); err != nil {
				return nil, nil, err
			}
		}
		if fr, _ := refcodec.ParseFrames(bb.W); len(fr) == 7 {
			for _, f := range fr {
				t.otherFrames = append(t.otherFrames, f.Bytes())
			}
		}
		var secWire []byte
		if dir == "AB+secret" {
			// before the faulted leg the (already encrypting) stream carries a secret
			// (PutSecret / GetSecret toggle the crypto mode around it); the stream must
			// still be protected afterwards
			if err := a.PutSecret(ctx, "claim-id-1234"); err != nil {
				return nil, nil, err
			}
			secWire = append([]byte(nil), ab.W...)
			ab.W = nil
		}
		msgs, err := c02SendScript(a, long)
		if err != nil {
			return nil, nil, err
		}
		t.msgs, t.wire = msgs, append([]byte(nil), ab.W...)
		mk := func() *stream.Stream {
			rb := &netsim.Buf{R: append([]byte(nil), preamble...)}
			r := stream.NewStream(rb)
			_, _ = r.ReceiveCompleteMessage(ctx)
			_ = r.SetSymmetricKey(testKey)
			if secWire != nil {
				rb.R = append([]byte(nil), secWire...)
				_, _ = r.GetSecret(ctx)
			}
			return r
		}
		t.split()
		return t, mk, nil
	}
	// BA: A sends a request, B reads it, B sends the script, A is the receiver.
	if err := a.SendMessage(ctx, []byte("request")); err != nil {
		return nil, nil, err
	}
	req := append([]byte(nil), ab.W...)
	t.other = req
	bb.R = append([]byte(nil), req...)
	if m, err := b.ReceiveCompleteMessage(ctx); err != nil || string(m) != "request" {
		return nil, nil, fmt.Errorf("BA setup: %v", err)
	}
	msgs, err := c02SendScript(b, long)
	if err != nil {
		return nil, nil, err
	}
	t.msgs, t.wire = msgs, append([]byte(nil), bb.W...)
	for i := 1; i < 7; i++ {
		if err := a.SendMessage(ctx, []byte(fmt.Sprintf("request-%d-from-the-receiver", i))); err != nil {
			return nil, nil, err
		}
	}
	if fr, _ := refcodec.ParseFrames(ab.W); len(fr) == 7 {
		for _, f := range fr {
			t.otherFrames = append(t.otherFrames, f.Bytes())
		}
	}
	// The receiver must be a stream that has sent "request" with A's IV. A
	// fresh stream would pick a new IV, which is fine for receiving (the
	// receive direction is keyed by B's IV on the wire), so rebuild: new
	// stream, send a request into the void (advances its send state exactly as
	// A did), then receive.
	mk := func() *stream.Stream {
		r := stream.NewStream(&netsim.Buf{})
		_ = r.SendMessage(ctx, hello)
		_ = r.SetSymmetricKey(testKey)
		_ = r.SendMessage(ctx, []byte("request"))
		return r
	}
	t.split()
	return t, mk, nil
}

func (t *c02Transcript) split() {
	fr, _ := refcodec.ParseFrames(t.wire)
	for _, f := range fr {
		t.frames = append(t.frames, f.Bytes())
	}
}

// msgIndexAt returns the index of the message that owns wire offset pos
// (len(msgs) when pos is at/after the end of the wire).
// framesView fills framePlain by reading the unfaulted wire one frame at a time and
// checks that, grouped by the end flags on the wire, it is exactly msgs.
func (t *c02Transcript) framesView(mk func() *stream.Stream) error {
	ctx := context.Background()
	rcv := mk()
	rcv.GetConnection().(*netsim.Buf).R = append([]byte(nil), t.wire...)
	fr, _ := refcodec.ParseFrames(t.wire)
	var cur []byte
	mi := 0
	for _, f := range fr {
		b, err := rcv.ReceiveFrame(ctx)
		if err != nil {
			return fmt.Errorf("unfaulted frame-at-a-time read failed: %v", err)
		}
		if b == nil {
			b = []byte{}
		}
		t.framePlain = append(t.framePlain, b)
		cur = append(cur, b...)
		if f.End != 0 {
			if mi >= len(t.msgs) || !bytes.Equal(cur, t.msgs[mi]) {
				return fmt.Errorf("frame-at-a-time view disagrees with the sent messages at message %d", mi)
			}
			mi, cur = mi+1, nil
		}
	}
	if mi != len(t.msgs) {
		return fmt.Errorf("frame-at-a-time view has %d messages, sent %d", mi, len(t.msgs))
	}
	return nil
}

func (t *c02Transcript) frameIndexAt(pos int) int {
	fr, _ := refcodec.ParseFrames(t.wire)
	for i, f := range fr {
		if pos < f.Off+5+int(f.Len) {
			return i
		}
	}
	return len(fr)
}

func (t *c02Transcript) msgIndexAt(pos int) int {
	fr, _ := refcodec.ParseFrames(t.wire)
	mi := 0
	for _, f := range fr {
		end := f.Off + 5 + int(f.Len)
		if pos < end {
			return mi
		}
		if f.End != 0 {
			mi++
		}
	}
	return mi
}

func joinFrames(fs [][]byte) []byte {
	var out []byte
	for _, f := range fs {
		out = append(out, f...)
	}
	return out
}

// c02Judge feeds wire to a fresh receiver using receiver kind R and applies the oracle.
func c02Judge(res *vlib.Result, t *c02Transcript, mk func() *stream.Stream, R string, wire []byte, faultClass string) {
	ctx := context.Background()
	pos := firstDiff(wire, t.wire)
	if len(wire) == len(t.wire) && pos == len(wire) {
		res.Skipped++
		res.Outcome("noop-fault")
		return
	}
	k := t.msgIndexAt(pos)
	exp := t.msgs
	if R == "frames" || R == "frames-end" {
		// frame-at-a-time API: every frame payload is a delivery unit
		k, exp = t.frameIndexAt(pos), t.framePlain
	}
	rcv := mk()
	buf := rcv.GetConnection().(*netsim.Buf)
	buf.R = append([]byte(nil), wire...)
	res.Nontrivial = 1
	var delivered [][]byte
	var rerr error
	for i := 0; i < len(exp)+3; i++ {
		n := 0
		if i < len(exp) {
			n = len(exp[i])
		}
		var m []byte
		var err error
		switch R {
		case "complete":
			m, err = rcv.ReceiveCompleteMessage(ctx)
		case "typed":
			m, err = message.NewMessageFromStream(rcv).GetRemainingBytes(ctx)
		case "readmsg":
			m, err = c01Recv(rcv, "readmsgall", n)
		case "frames":
			m, err = rcv.ReceiveFrame(ctx)
		case "frames-end":
			// the other frame-at-a-time API; the returned slices are KEPT (not copied) until
			// the end, as a consumer assembling a message from its frames would
			m, _, err = rcv.ReceiveFrameWithEnd(ctx)
		}
		if err != nil {
			rerr = err
			break
		}
		if m == nil {
			m = []byte{}
		}
		delivered = append(delivered, m)
	}
	key := func(kind string) string { return fmt.Sprintf("C02/%s/%s/%s", kind, faultClass, R) }
	beforeError := len(delivered)
	// an application that reads on after the error (same stream, same API): whatever it is still
	// handed must CONTINUE the sent sequence - a rejected injected frame may be followed by the
	// genuine next message, but nothing may be skipped, repeated or altered
	if rerr != nil && (R == "complete" || R == "frames" || R == "frames-end" || R == "typed") {
		for i := 0; i < 4; i++ {
			var m []byte
			var err error
			switch R {
			case "complete":
				m, err = rcv.ReceiveCompleteMessage(ctx)
			case "typed":
				m, err = message.NewMessageFromStream(rcv).GetRemainingBytes(ctx)
			case "frames":
				m, err = rcv.ReceiveFrame(ctx)
			case "frames-end":
				m, _, err = rcv.ReceiveFrameWithEnd(ctx)
			}
			if err != nil {
				continue
			}
			if m == nil {
				m = []byte{}
			}
			delivered = append(delivered, m)
		}
	}
	// delivered must be a prefix of msgs
	for i, d := range delivered {
		if i >= len(exp) {
			res.Violate(key("extra-message"), "dir=%s: receiver delivered %d messages, only %d were sent (extra: %q)", t.dir, len(delivered), len(exp), trunc(d))
			res.Outcome("finding-extra")
			return
		}
		if !bytes.Equal(d, exp[i]) {
			res.Violate(key("altered-message"), "dir=%s: message %d delivered as %q, sent %q (fault at wire offset %d, message %d)", t.dir, i, trunc(d), trunc(exp[i]), pos, k)
			res.Outcome("finding-altered")
			return
		}
	}
	if rerr == nil {
		res.Violate(key("no-error"), "dir=%s: no receive error at all after a fault at wire offset %d", t.dir, pos)
		res.Outcome("finding-noerror")
		return
	}
	if beforeError > k {
		res.Violate(key("late-error"), "dir=%s: fault at wire offset %d first affects message %d but %d messages were delivered before the error (%v)", t.dir, pos, k, beforeError, rerr)
		res.Outcome("finding-late")
		return
	}
	res.Outcome(fmt.Sprintf("error-after-%d-of-%d", beforeError, k))
}

func trunc(b []byte) string {
	if len(b) > 24 {
		return string(b[:24]) + "..."
	}
	return string(b)
}

// frame-level fault operators, addressed by an integer code; returns nil when
// the code does not apply.
type c02Op struct {
	name string
	n    func(t *c02Transcript) int
	f    func(t *c02Transcript, frames [][]byte, i int) [][]byte
}

var c02ForgeLens = []int{0, 1, 15, 16, 17, 32, 48}
var c02ForgeEnds = []byte{0, 1, 2, 10, 11}

func c02Ops() []c02Op {
	ins := func(fs [][]byte, at int, f []byte) [][]byte {
		out := append([][]byte{}, fs[:at]...)
		out = append(out, f)
		return append(out, fs[at:]...)
	}
	nf := func(t *c02Transcript) int { return len(t.frames) }
	return []c02Op{
		{"drop", nf, func(t *c02Transcript, fs [][]byte, i int) [][]byte {
			if i >= len(fs) {
				return nil
			}
			return append(append([][]byte{}, fs[:i]...), fs[i+1:]...)
		}},
		{"dup", nf, func(t *c02Transcript, fs [][]byte, i int) [][]byte {
			if i >= len(fs) {
				return nil
			}
			return ins(fs, i+1, fs[i])
		}},
		{"swap", func(t *c02Transcript) int { return len(t.frames) - 1 }, func(t *c02Transcript, fs [][]byte, i int) [][]byte {
			if i+1 >= len(fs) {
				return nil
			}
			out := append([][]byte{}, fs...)
			out[i], out[i+1] = out[i+1], out[i]
			return out
		}},
		{"replay", func(t *c02Transcript) int { n := len(t.frames); return n * n }, func(t *c02Transcript, fs [][]byte, c int) [][]byte {
			n := len(t.frames)
			i, j := c/n, c%n
			if i >= j || j >= len(fs) || i >= len(fs) {
				return nil
			}
			return ins(fs, j+1, fs[i])
		}},
		{"lenfield", func(t *c02Transcript) int { return len(t.frames) * 4 }, func(t *c02Transcript, fs [][]byte, c int) [][]byte {
			i, d := c/4, []int{-1, 1, -16, 16}[c%4]
			if i >= len(fs) {
				return nil
			}
			out := append([][]byte{}, fs...)
			f := append([]byte(nil), fs[i]...)
			l := int(binary.BigEndian.Uint32(f[1:5])) + d
			if l < 0 {
				return nil
			}
			binary.BigEndian.PutUint32(f[1:5], uint32(l))
			out[i] = f
			return out
		}},
		{"forge", func(t *c02Transcript) int { return (len(t.frames) + 1) * len(c02ForgeLens) * len(c02ForgeEnds) * 2 }, func(t *c02Transcript, fs [][]byte, c int) [][]byte {
			body := c % 2
			c /= 2
			end := c02ForgeEnds[c%len(c02ForgeEnds)]
			c /= len(c02ForgeEnds)
			l := c02ForgeLens[c%len(c02ForgeLens)]
			at := c / len(c02ForgeLens)
			if at > len(fs) {
				return nil
			}
			b := make([]byte, l)
			if body == 1 {
				src := t.frames[len(t.frames)-1][5:]
				copy(b, src)
			}
			return ins(fs, at, refcodec.MkFrame(end, b))
		}},
		{"reflect", func(t *c02Transcript) int { return (len(t.frames) + 1) * len(t.otherFrames) }, func(t *c02Transcript, fs [][]byte, c int) [][]byte {
			// the receiver's own k-th protected frame inserted before position `at`
			// (at == k is the reflection whose counter lines up)
			if len(t.otherFrames) == 0 {
				return nil
			}
			at, k := c/len(t.otherFrames), c%len(t.otherFrames)
			if at > len(fs) {
				return nil
			}
			return ins(fs, at, t.otherFrames[k])
		}},
		{"splice", func(t *c02Transcript) int { return len(t.frames) + 1 }, func(t *c02Transcript, fs [][]byte, at int) [][]byte {
			if at > len(fs) {
				return nil
			}
			return ins(fs, at, t.other)
		}},
	}
}

func C02Plan() *vlib.Plan {
	p := &vlib.Plan{
		Property: "C02", Level: "fault_enumeration",
		Rule:   "E-FAULT: recorded AES-GCM transcripts (3-frame, empty, 2-frame, 1-frame message; thorough adds a 5000-byte multi-frame message) in both directions (and once after a PutSecret/GetSecret exchange on the already encrypting stream) x every single fault: each bit of every header/IV/ciphertext/tag flipped, truncation at every byte, every frame dropped/duplicated/swapped/replayed later, length fields +-1/+-16, a forged frame (7 lengths x 5 end flags x 2 bodies) a cross-direction frame inserted at every position, and each of the receiver's own first 7 protected frames reflected back at every position; thorough: all ordered pairs of frame-level faults. 5 receive APIs (whole message, typed remaining bytes, ReadMessage, frame-at-a-time ReceiveFrame, and ReceiveFrameWithEnd with the returned slices kept until the end). Non-trivial = the mutated wire differs from the recorded one and was fed to the receiver; case ids are distinct by construction.",
		Assume: []string{"the receiver learns the peer IV from the wire, so a recorded transcript replays deterministically", "Go crypto/aes+cipher (GCM) trusted"},
	}
	p.Gen = func(tier string, yield func(vlib.Case)) {
		yield(vlib.Case{ID: "no-fault/large-typed-messages", Run: func() *vlib.Result {
			res := &vlib.Result{}
			const MiB = 1 << 20
			for d := -48; d <= 8; d++ {
				c02NoFaultLarge(res, MiB+d)
			}
			for _, n := range []int{2*MiB - 64, 2*MiB - 33, 2*MiB - 16, 2 * MiB, 2*MiB + 5} {
				c02NoFaultLarge(res, n)
			}
			return res
		}})
		long := tier == "thorough"
		p.Bounds = map[string]any{"long_message": long, "fault_pairs": long}
		ops := c02Ops()
		for _, dir := range []string{"AB", "BA", "AB+secret"} {
			t, mk, err := c02Record(dir, long)
			if err != nil {
				yield(vlib.Case{ID: "record/" + dir, Run: func() *vlib.Result {
					r := &vlib.Result{}
					r.Violate("C02/harness-record", "cannot record transcript: %v", err)
					return r
				}})
				continue
			}
			// sanity: the unfaulted transcript is delivered whole (not a fault case)
			if err := t.framesView(mk); err != nil {
				yield(vlib.Case{ID: "record-frames/" + dir, Run: func() *vlib.Result {
					r := &vlib.Result{}
					r.Violate("C02/harness-record", "%v", err)
					return r
				}})
				continue
			}
			for _, R := range []string{"complete", "typed", "readmsg", "frames", "frames-end"} {
				R := R
				if R == "frames" || R == "frames-end" {
					goto faults
				}
				yield(vlib.Case{ID: fmt.Sprintf("%s/%s/baseline", dir, R), Run: func() *vlib.Result {
					res := &vlib.Result{Evals: 1}
					rcv := mk()
					rcv.GetConnection().(*netsim.Buf).R = append([]byte(nil), t.wire...)
					for i, want := range t.msgs {
						got, err := c01Recv(rcv, map[string]string{"complete": "complete", "typed": "remaining", "readmsg": "readmsgall"}[R], len(want))
						if err != nil || !bytes.Equal(got, want) {
							res.Violate("C02/baseline", "unfaulted transcript: message %d not delivered (%v)", i, err)
						}
					}
					res.Outcome("baseline-ok")
					return res
				}})
			faults:
				// bit flips, batched per byte
				for off := 0; off < len(t.wire); off++ {
					off := off
					yield(vlib.Case{ID: fmt.Sprintf("%s/%s/bitflip@%d", dir, R, off), Run: func() *vlib.Result {
						res := &vlib.Result{}
						for bit := 0; bit < 8; bit++ {
							w := append([]byte(nil), t.wire...)
							w[off] ^= 1 << uint(bit)
							one := &vlib.Result{}
							c02Judge(one, t, mk, R, w, "bitflip")
							mergeResult(res, one)
						}
						res.Sample = fmt.Sprintf("%s/%s/bitflip@%d (8 bits)", dir, R, off)
						return res
					}})
				}
				// truncation at every byte
				for cut := 0; cut < len(t.wire); cut++ {
					cut := cut
					yield(vlib.Case{ID: fmt.Sprintf("%s/%s/truncate@%d", dir, R, cut), Run: func() *vlib.Result {
						res := &vlib.Result{Evals: 1}
						c02Judge(res, t, mk, R, t.wire[:cut], "truncate")
						return res
					}})
				}
				// single frame-level faults
				for _, op := range ops {
					op := op
					for c := 0; c < op.n(t); c++ {
						c := c
						yield(vlib.Case{ID: fmt.Sprintf("%s/%s/%s#%d", dir, R, op.name, c), Run: func() *vlib.Result {
							res := &vlib.Result{Evals: 1}
							fs := op.f(t, t.frames, c)
							if fs == nil {
								res.Skipped = 1
								return res
							}
							fc := op.name
							if op.name == "forge" {
								fc = c02ForgeClass(c)
							}
							c02Judge(res, t, mk, R, joinFrames(fs), fc)
							res.Sample = fmt.Sprintf("%s/%s/%s#%d", dir, R, op.name, c)
							return res
						}})
					}
				}
			}
			if long {
				// all ordered pairs of frame-level faults (receiver: complete)
				for i1, op1 := range ops {
					for c1 := 0; c1 < op1.n(t); c1++ {
						i1, op1, c1 := i1, op1, c1
						yield(vlib.Case{ID: fmt.Sprintf("%s/pair/%s#%d", dir, op1.name, c1), Run: func() *vlib.Result {
							res := &vlib.Result{}
							fs1 := op1.f(t, t.frames, c1)
							if fs1 == nil {
								res.Skipped = 1
								return res
							}
							for i2, op2 := range ops {
								if i2 < i1 {
									continue
								}
								for c2 := 0; c2 < op2.n(t)+8; c2++ {
									fs2 := op2.f(t, fs1, c2)
									if fs2 == nil {
										continue
									}
									one := &vlib.Result{}
									c02Judge(one, t, mk, "complete", joinFrames(fs2), "pair:"+op1.name+"+"+op2.name)
									mergeResult(res, one)
								}
							}
							return res
						}})
					}
				}
			}
		}
	}
	return p
}

func c02ForgeClass(c int) string {
	c /= 2
	end := c02ForgeEnds[c%len(c02ForgeEnds)]
	c /= len(c02ForgeEnds)
	l := c02ForgeLens[c%len(c02ForgeLens)]
	lc := "len>=16"
	if l == 0 {
		lc = "len0"
	} else if l < 16 {
		lc = "len<16"
	}
	return fmt.Sprintf("forge-%s-end%d", lc, end)
}

// mergeResult adds one single-evaluation result into an accumulating batch result.
func mergeResult(acc, one *vlib.Result) {
	acc.Evals++
	acc.Nontrivial += one.Nontrivial
	acc.Skipped += one.Skipped
	acc.Transitions += one.Transitions
	acc.States = append(acc.States, one.States...)
	for k, v := range one.Outcomes {
		if acc.Outcomes == nil {
			acc.Outcomes = map[string]int{}
		}
		acc.Outcomes[k] += v
	}
	acc.Violations = append(acc.Violations, one.Violations...)
}

// c02NoFaultLarge: the fault-free end of the property - with nobody on the path, what the
// receiver hands over IS what was sent - for messages the typed layer splits over several
// protected frames (sizes around the 1 MiB frame limit and its 16/32-byte overheads), sent
// after an earlier message (so the base IV is out of the way) and followed by another one.
func c02NoFaultLarge(res *vlib.Result, n int) {
	ctx := context.Background()
	res.Evals++
	res.Nontrivial++
	sb := &netsim.Buf{}
	snd := stream.NewStream(sb)
	_ = snd.SetSymmetricKey(testKey)
	body := payload(7, n)
	msgs := [][]byte{[]byte("first"), body, []byte("last")}
	for i, m := range msgs {
		mm := message.NewMessageForStream(snd)
		err := mm.PutBytes(ctx, m)
		if err == nil {
			err = mm.FinishMessage(ctx)
		}
		if err != nil {
			res.Violate("C02/no-fault/send-error", "message %d (%d bytes): %v", i, len(m), err)
			return
		}
	}
	for _, R := range []string{"complete", "typed"} {
		rcv := stream.NewStream(&netsim.Buf{R: sb.W})
		_ = rcv.SetSymmetricKey(testKey)
		for i, want := range msgs {
			var got []byte
			var err error
			if R == "complete" {
				got, err = rcv.ReceiveCompleteMessage(ctx)
			} else {
				got, err = message.NewMessageFromStream(rcv).GetRemainingBytes(ctx)
			}
			if err != nil {
				res.Violate("C02/no-fault/receive-error/"+R, "untouched wire, message %d of 3 (middle one %d bytes): %v", i, n, err)
				break
			}
			if !bytes.Equal(got, want) {
				res.Violate("C02/no-fault/altered-message/"+R, "untouched wire, middle message of %d bytes: message %d was sent as %d bytes and handed over as %d bytes (first difference at %d)", n, i, len(want), len(got), firstDiff(got, want))
				break
			}
		}
	}
	res.Outcome("no-fault-large-ok")
}
