package props

// C20 — a CCB dial returns only the connection that presents its fresh
// connect id. E-ENUM of arrival orders: (1) the accept loop over a scripted
// listener, all sequences of connection kinds; (2) the proxied request over a
// scripted broker stream, all reply shapes; (3) Dial in standard mode against
// in-process brokers on loopback TCP: broker reply x reverse-connection events
// in every order, 1-3 brokers with every subset working; (4) generated ids.

import (
	"context"
	"errors"
	"fmt"
	"io"
	"net"
	"os"
	"os/exec"
	"path/filepath"
	"runtime/debug"
	"strings"
	"sync"
	"time"

	"github.com/bbockelm/cedar/addresses"
	"github.com/bbockelm/cedar/ccb"
	"github.com/bbockelm/cedar/security"
	cedarserver "github.com/bbockelm/cedar/server"
	"github.com/bbockelm/cedar/stream"

	"verif/netsim"
	"verif/refcodec"
	"verif/vlib"
)

const c20MyID = "aaaaaaaaaaaaaaaaaaaaaaaaaaaaaaaaaaaaaaaa"
const c20OldID = "bbbbbbbbbbbbbbbbbbbbbbbbbbbbbbbbbbbbbbbb"

func c20Hello(id string) []byte {
	ad := newWireAd().setS("ClaimId", id).setS("RequestID", "1").setS("MyAddress", "<10.0.0.9:1>")
	return refcodec.MkFrame(1, append(refcodec.EncInt(69), ad.encode(false)...))
}

var c20Kinds = []string{"legit", "wrong-id", "empty-id", "earlier-id", "prefix-id", "other-command", "command-high-bits", "garbage", "truncated-hello", "oversized-ad", "immediate-close", "no-id-attr"}

func c20ConnBytes(kind string) []byte {
	switch kind {
	case "legit":
		return c20Hello(c20MyID)
	case "wrong-id":
		return c20Hello("cccccccccccccccccccccccccccccccccccccccc")
	case "empty-id":
		return c20Hello("")
	case "earlier-id":
		return c20Hello(c20OldID)
	case "prefix-id":
		return c20Hello(c20MyID[:39])
	case "other-command":
		ad := newWireAd().setS("ClaimId", c20MyID)
		return refcodec.MkFrame(1, append(refcodec.EncInt(68), ad.encode(false)...))
	case "command-high-bits":
		// the right id under a command word that is NOT the reverse-connect command but equals it
		// in its low 32 bits
		ad := newWireAd().setS("ClaimId", c20MyID).setS("RequestID", "1").setS("MyAddress", "<10.0.0.9:1>")
		return refcodec.MkFrame(1, append(refcodec.EncInt(69+1<<32), ad.encode(false)...))
	case "garbage":
		return []byte("GET / HTTP/1.0\r\n\r\n\x00\xff\xfe garbage garbage garbage")
	case "truncated-hello":
		h := c20Hello(c20MyID)
		return h[:len(h)-7]
	case "oversized-ad":
		ad := newWireAd().setS("ClaimId", c20MyID).setS("Pad", strings.Repeat("x", 70000))
		return refcodec.MkFrame(1, append(refcodec.EncInt(69), ad.encode(false)...))
	case "immediate-close":
		return nil
	case "no-id-attr":
		ad := newWireAd().setS("RequestID", "1")
		return refcodec.MkFrame(1, append(refcodec.EncInt(69), ad.encode(false)...))
	}
	panic(kind)
}

type scriptListener struct {
	conns []*netsim.Buf
	next  int
}

func (l *scriptListener) Accept() (net.Conn, error) {
	if l.next >= len(l.conns) {
		return nil, errors.New("listener closed")
	}
	c := l.conns[l.next]
	l.next++
	return c, nil
}
func (l *scriptListener) Close() error   { return nil }
func (l *scriptListener) Addr() net.Addr { return netsim.Addr{Net: "tcp", S: "10.0.0.1:1"} }

func c20AcceptSeq(res *vlib.Result, seq []string) {
	res.Evals++
	l := &scriptListener{}
	for _, k := range seq {
		l.conns = append(l.conns, &netsim.Buf{R: c20ConnBytes(k)})
	}
	conn, err := ccb.VerifAcceptReversed(context.Background(), l, c20MyID)
	res.Nontrivial++
	firstLegit := -1
	for i, k := range seq {
		if k == "legit" {
			firstLegit = i
			break
		}
	}
	id := strings.Join(seq, ",")
	if firstLegit < 0 {
		if err == nil {
			idx := -1
			for i, c := range l.conns {
				if net.Conn(c) == conn {
					idx = i
				}
			}
			k := "?"
			if idx >= 0 {
				k = seq[idx]
			}
			res.Violate("C20/accept/returned-rogue/"+k, "sequence [%s]: no connection presented the request's id, yet connection #%d (%s) was returned", id, idx, k)
			return
		}
		for i, c := range l.conns {
			if !c.Closed {
				res.Violate("C20/accept/rogue-left-open/"+seq[i], "sequence [%s]: connection #%d (%s) was not closed", id, i, seq[i])
			}
		}
		res.Outcome("accept-none")
		return
	}
	if err != nil {
		res.Violate("C20/accept/legit-not-returned", "sequence [%s]: %v", id, err)
		return
	}
	if conn != net.Conn(l.conns[firstLegit]) {
		idx := -1
		for i, c := range l.conns {
			if net.Conn(c) == conn {
				idx = i
			}
		}
		k := "?"
		if idx >= 0 {
			k = seq[idx]
		}
		res.Violate("C20/accept/returned-wrong-conn/"+k, "sequence [%s]: connection #%d (%s) returned instead of #%d", id, idx, k, firstLegit)
		return
	}
	for i := 0; i < firstLegit; i++ {
		if !l.conns[i].Closed {
			res.Violate("C20/accept/rogue-left-open/"+seq[i], "sequence [%s]: rogue connection #%d (%s) still open when the dial returned", id, i, seq[i])
		}
	}
	if l.conns[firstLegit].Closed {
		res.Violate("C20/accept/returned-conn-closed", "sequence [%s]", id)
	}
	res.Outcome("accept-legit")
}

// ---- (2) proxied mode over a scripted broker stream ----

var c20ProxyReplies = []string{"ok+matching-hello", "ok+wrong-id-hello", "ok+prefix-id-hello", "ok+garbage", "ok+eof", "ok+other-command", "failure", "streaming-unsupported", "eof", "garbage-reply", "no-result-attr+matching-hello"}

func c20Proxy(res *vlib.Result, reply string) {
	res.Evals++
	res.Nontrivial++
	ad := func(a *wireAd) []byte { return refcodec.MkFrame(1, a.encode(false)) }
	var in []byte
	ok := ad(newWireAd().set("Result", "true"))
	switch reply {
	case "ok+matching-hello":
		in = append(ok, c20Hello(c20MyID)...)
	case "ok+wrong-id-hello":
		in = append(ok, c20Hello(c20OldID)...)
	case "ok+prefix-id-hello":
		in = append(ok, c20Hello(c20MyID[:20])...)
	case "ok+garbage":
		in = append(ok, []byte("\x01\x00\x00\x00\x09garbage!!")...)
	case "ok+eof":
		in = ok
	case "ok+other-command":
		in = append(ok, c20ConnBytes("other-command")...)
	case "failure":
		in = ad(newWireAd().set("Result", "false").setS("ErrorString", "target not registered"))
	case "streaming-unsupported":
		in = ad(newWireAd().set("Result", "false").set("CCBStreamingUnsupported", "true").setS("Name", "old"))
	case "eof":
		in = nil
	case "garbage-reply":
		in = []byte("\x01\x00\x00\x00\x05hello")
	case "no-result-attr+matching-hello":
		in = append(ad(newWireAd().setS("Name", "x")), c20Hello(c20MyID)...)
	}
	b := &netsim.Buf{R: in}
	conn, err := ccb.VerifProxyRequestOnStream(context.Background(), b, stream.NewStream(b), "7", c20MyID)
	want := reply == "ok+matching-hello"
	if (err == nil) != want {
		res.Violate("C20/proxy/"+reply, "broker reply %q: returned conn=%v err=%v; only a success reply followed by the hello carrying this request's id may yield a connection", reply, conn != nil, err)
	}
	if err == nil && conn != net.Conn(b) {
		res.Violate("C20/proxy/wrong-conn", "reply %q", reply)
	}
	if reply == "failure" && err != nil && !strings.Contains(err.Error(), "target not registered") {
		res.Violate("C20/proxy/failure-reason-lost", "error %q does not carry the broker's reason", err)
	}
	res.Outcome("proxy-" + map[bool]string{true: "conn", false: "error"}[err == nil])
}

// ---- (3) Dial against in-process brokers ----

func c20Sec() *security.SecurityConfig {
	return &security.SecurityConfig{AuthMethods: []security.AuthMethod{}, Authentication: security.SecurityNever, Encryption: security.SecurityNever, Integrity: security.SecurityNever,
		RemoteVersion: "$CondorVersion: 25.13.0 2026-06-21 BuildID: test $", SessionCache: security.NewSessionCache()}
}

// c20Shared: state shared by the brokers of one multi-broker dial, so that the
// scenario does not depend on the (shuffled) order in which Dial contacts them:
// whichever broker is asked first fails the request, every later one first lets
// a rogue present the connect id of the EARLIER request and then the legitimate
// connection.
type c20Shared struct {
	mu  sync.Mutex
	ids []string
}

func (sh *c20Shared) next(id string) []string {
	sh.mu.Lock()
	defer sh.mu.Unlock()
	sh.ids = append(sh.ids, id)
	if len(sh.ids) == 1 {
		return []string{"reply-fail"}
	}
	return []string{"rogue-earlier", "legit", "reply-ok"}
}

func (sh *c20Shared) earlier() string {
	sh.mu.Lock()
	defer sh.mu.Unlock()
	return sh.ids[0]
}

type c20Broker struct {
	onRequest      func(id, myAddress string) // called with every request's connect id and return address
	nestedLeftOpen bool                       // a rejected proxied / nested request's broker connection was still open 1.5 s later
	nestedVerdict  chan struct{}              // closed once the broker has seen how the rejected connection ended
	lastRoute      string
	shared         *c20Shared
	addr           string
	ln             net.Listener
	cancel         context.CancelFunc
	script         []string // events: reply-ok, reply-fail, legit, rogue-wrong, rogue-garbage, rogue-old, rogue-close
	mu             sync.Mutex
	opened         []net.Conn
	rogueClosed    map[int]bool
	legit          net.Conn
	reqs           int
	reqStream      *stream.Stream // the last request's broker connection (kept open): replies can be written later
}

// reply writes a broker reply on the last request's connection.
func (b *c20Broker) reply(ok bool) {
	b.mu.Lock()
	st := b.reqStream
	b.mu.Unlock()
	if st == nil {
		return
	}
	if ok {
		_ = ccb.WriteControlAd(context.Background(), st, ccb.NewAd(map[string]any{ccb.AttrResult: true}))
	} else {
		_ = ccb.WriteControlAd(context.Background(), st, ccb.NewAd(map[string]any{ccb.AttrResult: false, ccb.AttrErrorString: "scripted broker failure"}))
	}
}

func startC20Broker(script []string) (*c20Broker, error) {
	ln, err := net.Listen("tcp", "127.0.0.1:0")
	if err != nil {
		return nil, err
	}
	b := &c20Broker{addr: ln.Addr().String(), ln: ln, script: script, rogueClosed: map[int]bool{}}
	srv := cedarserver.New(c20Sec())
	srv.Handle(ccb.CommandRequest, func(ctx context.Context, c *cedarserver.Conn) error {
		ad, err := ccb.ReadControlAd(ctx, c.Stream)
		if err != nil {
			return err
		}
		id := ccb.AdString(ad, ccb.AttrClaimID)
		my := strings.Trim(ccb.AdString(ad, ccb.AttrMyAddress), "<>")
		if b.onRequest != nil {
			b.onRequest(id, ccb.AdString(ad, ccb.AttrMyAddress))
		}
		b.mu.Lock()
		b.reqs++
		b.opened = append(b.opened, c.Stream.GetConnection())
		b.reqStream = c.Stream
		b.mu.Unlock()
		script := b.script
		if b.shared != nil {
			script = b.shared.next(id)
		}
		for i, ev := range script {
			switch ev {
			case "reply-ok":
				_ = ccb.WriteControlAd(ctx, c.Stream, ccb.NewAd(map[string]any{ccb.AttrResult: true}))
			case "reply-fail":
				_ = ccb.WriteControlAd(ctx, c.Stream, ccb.NewAd(map[string]any{ccb.AttrResult: false, ccb.AttrErrorString: "scripted broker failure"}))
			case "nested-hello-right", "nested-hello-wrong", "nested-hello-empty", "nested-hello-garbage", "nested-reply-fail":
				// streaming / nested mode: the answer comes back on the request's own connection
				conn := c.Stream.GetConnection()
				b.mu.Lock()
				b.lastRoute = ccb.AdString(ad, ccb.AttrCCBRoute)
				b.mu.Unlock()
				if ev != "nested-reply-fail" {
					_ = ccb.WriteControlAd(ctx, c.Stream, ccb.NewAd(map[string]any{ccb.AttrResult: true}))
				}
				switch ev {
				case "nested-hello-right":
					_, _ = conn.Write(append(c20Hello(id), refcodec.MkFrame(1, []byte("TOKEN-from-"+b.addr))...))
					continue
				case "nested-hello-wrong":
					_, _ = conn.Write(c20Hello("dddddddddddddddddddddddddddddddddddddddd"))
				case "nested-hello-empty":
					_, _ = conn.Write(c20Hello(""))
				case "nested-hello-garbage":
					_, _ = conn.Write([]byte("\x01\x00\x00\x00\x20this is not a cedar hello at all!"))
				case "nested-reply-fail":
					_ = ccb.WriteControlAd(ctx, c.Stream, ccb.NewAd(map[string]any{ccb.AttrResult: false, ccb.AttrErrorString: "scripted broker failure"}))
				}
				_ = conn.SetReadDeadline(time.Now().Add(1500 * time.Millisecond))
				_, rerr := io.ReadAll(conn)
				var ne net.Error
				if errors.As(rerr, &ne) && ne.Timeout() {
					b.mu.Lock()
					b.nestedLeftOpen = true
					b.mu.Unlock()
				}
				if b.nestedVerdict != nil {
					close(b.nestedVerdict)
				}
			case "legit":
				rc, err := net.Dial("tcp", my)
				if err != nil {
					continue
				}
				b.mu.Lock()
				b.opened = append(b.opened, rc)
				b.legit = rc
				b.mu.Unlock()
				_, _ = rc.Write(append(c20Hello(id), refcodec.MkFrame(1, []byte("TOKEN-from-"+b.addr))...))
			default: // rogue kinds: the turn ends when the rogue observes its own close
				rc, err := net.Dial("tcp", my)
				if err != nil {
					continue
				}
				switch ev {
				case "rogue-wrong":
					_, _ = rc.Write(c20Hello("dddddddddddddddddddddddddddddddddddddddd"))
				case "rogue-old":
					_, _ = rc.Write(c20Hello(c20OldID))
				case "rogue-earlier":
					_, _ = rc.Write(append(c20Hello(b.shared.earlier()), refcodec.MkFrame(1, []byte("TOKEN-from-rogue"))...))
				case "rogue-garbage":
					_, _ = rc.Write([]byte("\x01\x00\x00\x00\x20this is not a cedar hello at all!"))
				case "rogue-close":
				}
				if ev == "rogue-close" {
					_ = rc.Close()
					b.mu.Lock()
					b.rogueClosed[i] = true
					b.mu.Unlock()
					continue
				}
				_ = rc.SetReadDeadline(time.Now().Add(5 * time.Second))
				_, rerr := io.ReadAll(rc)
				b.mu.Lock()
				var ne net.Error
				timedOut := errors.As(rerr, &ne) && ne.Timeout()
				b.rogueClosed[i] = !timedOut // EOF or reset = closed by the dialer; only a read timeout means still open
				b.mu.Unlock()
				_ = rc.Close()
			}
		}
		return cedarserver.KeepOpen()
	})
	ctx, cancel := context.WithCancel(context.Background())
	b.cancel = cancel
	go func() { _ = srv.Serve(ctx, ln) }()
	return b, nil
}

func (b *c20Broker) stop() {
	b.cancel()
	_ = b.ln.Close()
	b.mu.Lock()
	for _, c := range b.opened {
		_ = c.Close()
	}
	b.mu.Unlock()
}

// readToken reads the frame the broker wrote right after its legit hello.
func readToken(c net.Conn) string {
	_ = c.SetReadDeadline(time.Now().Add(5 * time.Second))
	h := make([]byte, 5)
	if _, err := io.ReadFull(c, h); err != nil {
		return "read-error:" + err.Error()
	}
	n := int(h[1])<<24 | int(h[2])<<16 | int(h[3])<<8 | int(h[4])
	b := make([]byte, n)
	if _, err := io.ReadFull(c, b); err != nil {
		return "read-error:" + err.Error()
	}
	return string(b)
}

func c20DialOne(res *vlib.Result, script []string) string {
	res.Evals++
	res.Nontrivial++
	br, err := startC20Broker(script)
	if err != nil {
		res.Violate("C20/harness", "%v", err)
		return ""
	}
	defer br.stop()
	hasLegit, hasFail := false, false
	legitAt, failAt := -1, -1
	for i, e := range script {
		if e == "legit" && legitAt < 0 {
			hasLegit, legitAt = true, i
		}
		if e == "reply-fail" && failAt < 0 {
			hasFail, failAt = true, i
		}
	}
	timeout := 20 * time.Second
	if !hasLegit && !hasFail {
		timeout = 300 * time.Millisecond // nothing decisive will ever arrive: expect the dial's own timeout
	}
	conn, derr := ccb.Dial(context.Background(), []addresses.CCBContact{{BrokerAddr: br.addr, CCBID: "1", Raw: br.addr + "#1"}}, ccb.DialOptions{Security: c20Sec(), ListenAddr: "127.0.0.1:0", Stagger: -1, Timeout: timeout})
	id := strings.Join(script, ",")
	outcome := "error"
	if derr == nil {
		outcome = "conn"
		tok := readToken(conn)
		if tok != "TOKEN-from-"+br.addr {
			res.Violate("C20/dial/returned-conn-is-not-the-legit-one", "script [%s]: the returned connection delivered %q, not the token sent on the connection that presented the request's id", id, tok)
		}
		_ = conn.Close()
	}
	switch {
	case hasLegit && (!hasFail || legitAt < failAt):
		// the matching hello is available before any failure reply... but the failure may still
		// race it when both exist; only a strict "legit only" script must return the conn
		if !hasFail && derr != nil {
			res.Violate("C20/dial/legit-not-returned", "script [%s]: %v", id, derr)
		}
	case hasFail && !hasLegit:
		if derr == nil {
			res.Violate("C20/dial/conn-despite-broker-failure", "script [%s]", id)
		} else if !strings.Contains(derr.Error(), "scripted broker failure") {
			res.Violate("C20/dial/failure-reason-lost", "script [%s]: %v", id, derr)
		}
	case !hasFail && !hasLegit:
		if derr == nil {
			res.Violate("C20/dial/conn-from-nothing", "script [%s]: a connection was returned although no connection presented the id", id)
		}
	}
	// rogue connections before the decisive event must have been closed by the dialer
	decisive := len(script)
	if legitAt >= 0 && legitAt < decisive {
		decisive = legitAt
	}
	if failAt >= 0 && failAt < decisive {
		decisive = failAt
	}
	br.mu.Lock()
	for i, e := range script {
		if i >= decisive {
			break // after the dial has its answer its listener is gone: not the dialer's conns any more
		}
		if strings.HasPrefix(e, "rogue-") {
			if closed, seen := br.rogueClosed[i]; seen && !closed {
				res.Violate("C20/dial/rogue-left-open/"+e, "script [%s]: rogue connection (%s) was still open 5 s later", id, e)
			}
		}
	}
	br.mu.Unlock()
	res.Outcome("dial-" + outcome)
	return outcome
}

// c20Nested: a nested (multi-hop) contact "<entry>#7#3": one streaming request to the
// entry broker carrying the route, the answer arriving on that same connection. A
// matching hello hands the connection back; anything else ends the dial with an error
// AND the connection closed.
var c20NestedMu sync.Mutex

func c20Nested(res *vlib.Result, answer string) {
	// A connection that is merely dropped is closed by the runtime when the garbage collector
	// finalises it, which in a busy process happens within milliseconds and would hide the
	// leak. Collection is therefore suspended while the broker watches its end.
	c20NestedMu.Lock()
	defer c20NestedMu.Unlock()
	defer debug.SetGCPercent(debug.SetGCPercent(-1))
	res.Evals++
	res.Nontrivial++
	b, err := startC20Broker([]string{answer})
	if err != nil {
		res.Violate("C20/harness", "%v", err)
		return
	}
	defer b.stop()
	b.nestedVerdict = make(chan struct{})
	raw := b.addr + "#7#3"
	broker, id, ok := addresses.SplitCCBContact(raw)
	if !ok {
		res.Violate("C20/harness", "contact %q does not parse as nested", raw)
		return
	}
	conn, derr := ccb.Dial(context.Background(), []addresses.CCBContact{{BrokerAddr: broker, CCBID: id, Raw: raw}}, ccb.DialOptions{Security: c20Sec(), Stagger: -1, Timeout: 20 * time.Second})
	if answer != "nested-hello-right" {
		select { // let the broker see whether its connection gets closed (it waits up to 3 s)
		case <-b.nestedVerdict:
		case <-time.After(10 * time.Second):
		}
	}
	b.mu.Lock()
	route, leftOpen := b.lastRoute, b.nestedLeftOpen
	b.mu.Unlock()
	if route == "" {
		res.Violate("C20/harness", "the request for %q did not carry a route (nested path not taken): %v", raw, derr)
		return
	}
	if answer == "nested-hello-right" {
		if derr != nil {
			res.Violate("C20/nested/legit-not-returned", "%v", derr)
		} else if tok := readToken(conn); tok != "TOKEN-from-"+b.addr {
			res.Violate("C20/nested/returned-conn-is-not-the-legit-one", "token %q", tok)
		}
		if conn != nil {
			_ = conn.Close()
		}
		res.Outcome("nested-conn")
		return
	}
	if derr == nil {
		res.Violate("C20/nested/returned-despite-"+answer, "Dial returned a connection although the entry broker answered with %s", answer)
		_ = conn.Close()
		return
	}
	if leftOpen {
		res.Violate("C20/nested/rejected-conn-left-open/"+answer, "the dial failed (%v) but the entry broker's connection was still open 1.5 s later", derr)
	}
	res.Outcome("nested-error")
}

// c20Unguessable: a standard-mode dial whose reverse-connect port is a shared-port
// endpoint with an anonymous name. Everything the dial makes public about that
// endpoint - the return address sent to the broker and the socket's file name in
// the (listable) socket directory - must not give away the connect id.
func c20Unguessable(res *vlib.Result) {
	res.Evals++
	res.Nontrivial++
	dir := filepath.Join(verifDir(), ".build", fmt.Sprintf("c20s-%d", os.Getpid()))
	_ = os.RemoveAll(dir)
	_ = os.MkdirAll(dir, 0o700)
	defer os.RemoveAll(dir)
	b, err := startC20Broker([]string{"reply-fail"})
	if err != nil {
		res.Violate("C20/harness", "%v", err)
		return
	}
	defer b.stop()
	var id, my string
	var names []string
	b.onRequest = func(i, m string) {
		id, my = i, m
		if ents, err := os.ReadDir(dir); err == nil {
			for _, e := range ents {
				names = append(names, e.Name())
			}
		}
	}
	_, derr := ccb.Dial(context.Background(), []addresses.CCBContact{{BrokerAddr: b.addr, CCBID: "1", Raw: b.addr + "#1"}}, ccb.DialOptions{Security: c20Sec(), Stagger: -1, Timeout: 20 * time.Second,
		SharedPortEndpoint: &ccb.SharedPortEndpointConfig{SharedPortAddr: "127.0.0.1:9618", SocketDir: dir}})
	if id == "" {
		res.Violate("C20/harness", "shared-port dial never reached the broker: %v", derr)
		return
	}
	leaks := func(public string) bool {
		for i := 0; i+8 <= len(id); i++ {
			if strings.Contains(public, id[i:i+8]) {
				return true
			}
		}
		return false
	}
	if leaks(my) {
		res.Violate("C20/connect-id-public/return-address", "the return address %q advertised for the reverse connection contains (part of) the request's connect id", my)
	}
	for _, n := range names {
		if leaks(n) {
			res.Violate("C20/connect-id-public/socket-name", "the endpoint socket %q in the shared-port socket directory contains (part of) the request's connect id", n)
		}
	}
	if len(names) == 0 {
		res.Outcome("shared-port-endpoint-not-listed")
	}
	res.Outcome("shared-port-endpoint-checked")
}

// c20FreshID: n brokers, the first one asked fails, the next one sees a rogue
// presenting the earlier request's connect id before the legitimate connection.
func c20FreshID(res *vlib.Result, n int, stagger time.Duration) {
	res.Evals++
	res.Nontrivial++
	sh := &c20Shared{}
	var brs []*c20Broker
	var contacts []addresses.CCBContact
	for i := 0; i < n; i++ {
		b, err := startC20Broker(nil)
		if err != nil {
			res.Violate("C20/harness", "%v", err)
			return
		}
		b.shared = sh
		defer b.stop()
		brs = append(brs, b)
		contacts = append(contacts, addresses.CCBContact{BrokerAddr: b.addr, CCBID: "1", Raw: b.addr + "#1"})
	}
	conn, err := ccb.Dial(context.Background(), contacts, ccb.DialOptions{Security: c20Sec(), ListenAddr: "127.0.0.1:0", Stagger: stagger, Timeout: 20 * time.Second})
	id := fmt.Sprintf("%d brokers, stagger=%v", n, stagger)
	sh.mu.Lock()
	ids := append([]string(nil), sh.ids...)
	sh.mu.Unlock()
	seen := map[string]bool{}
	for _, x := range ids {
		if seen[x] {
			res.Violate("C20/multi/connect-id-reused-across-requests", "%s: two requests of one dial carried the same connect id - an id is fresh per request", id)
		}
		seen[x] = true
	}
	if err != nil {
		if len(ids) >= 2 {
			res.Violate("C20/multi/no-conn-although-a-broker-works", "%s: %v", id, err)
		}
		res.Outcome("fresh-id-dial-failed")
		return
	}
	tok := readToken(conn)
	if tok == "TOKEN-from-rogue" {
		res.Violate("C20/multi/returned-rogue/earlier-request-id", "%s: Dial returned the connection that presented the connect id of an EARLIER request of the same dial", id)
	} else if !strings.HasPrefix(tok, "TOKEN-from-") {
		res.Violate("C20/multi/returned-conn-not-a-legit-one", "%s: token %q", id, tok)
	}
	_ = conn.Close()
	res.Outcome(fmt.Sprintf("fresh-id-requests=%d", len(ids)))
}

func c20MultiBroker(res *vlib.Result, working []bool, stagger time.Duration) {
	res.Evals++
	res.Nontrivial++
	var brs []*c20Broker
	var contacts []addresses.CCBContact
	any := false
	for _, wk := range working {
		script := []string{"reply-fail"}
		if wk {
			script = []string{"rogue-wrong", "legit", "reply-ok"}
			any = true
		}
		b, err := startC20Broker(script)
		if err != nil {
			res.Violate("C20/harness", "%v", err)
			return
		}
		defer b.stop()
		brs = append(brs, b)
		contacts = append(contacts, addresses.CCBContact{BrokerAddr: b.addr, CCBID: "1", Raw: b.addr + "#1"})
	}
	conn, err := ccb.Dial(context.Background(), contacts, ccb.DialOptions{Security: c20Sec(), ListenAddr: "127.0.0.1:0", Stagger: stagger, Timeout: 20 * time.Second})
	id := fmt.Sprintf("working=%v stagger=%v", working, stagger)
	if !any {
		if err == nil {
			res.Violate("C20/multi/conn-although-all-brokers-failed", "%s", id)
		}
		res.Outcome("multi-all-failed")
		return
	}
	if err != nil {
		res.Violate("C20/multi/no-conn-although-a-broker-works", "%s: %v", id, err)
		return
	}
	tok := readToken(conn)
	okTok := false
	for i, b := range brs {
		if working[i] && tok == "TOKEN-from-"+b.addr {
			okTok = true
		}
	}
	if !okTok {
		res.Violate("C20/multi/returned-conn-not-a-legit-one", "%s: token %q", id, tok)
	}
	_ = conn.Close()
	res.Outcome("multi-one-conn")
}

func C20Plan() *vlib.Plan {
	p := &vlib.Plan{
		Property: "C20", Level: "exploration",
		Rule:   "E-ENUM of arrival orders. (1) accept loop (in-package seam) over a scripted listener: all sequences of length <= L over 12 connection kinds {legit id, wrong id, empty id, id of an earlier request, 39-char prefix of the id, non-hello command, a command word equal to the hello's only in its low 32 bits, garbage, truncated hello, oversized ad, immediate close, hello without id}; the returned conn must be the first one that presented the id, every earlier one closed, none returned otherwise. (2) proxied request over a scripted broker stream: 11 reply shapes; a conn only after success + matching hello. (3) Dial in standard mode against in-process brokers on loopback TCP: every ordering of {reply-ok, reply-fail} x {legit, 4 rogue kinds} up to 3 events (a rogue's turn ends when it observes its own close), each run twice; 1-3 brokers with every working subset x stagger {-1, 20 ms}: the returned conn delivers the token written on the legit reverse connection. (4) 10^4 generated connect ids are 40 hex characters and pairwise distinct, and two fresh processes started with math/rand's automatic seeding switched off (GODEBUG=randautoseed=0) do not generate the same ids. Non-trivial = at least one connection/reply consumed by the dialer. (4) connect-id freshness per request: 2 and 3 scripted brokers sharing one scenario (whichever is asked first fails; the next lets a rogue present the EARLIER request's id, then the legitimate connection), sequential and staggered: all requests of one dial carry distinct ids and the rogue is never returned. (5) a dial whose reverse-connect port is an anonymous shared-port endpoint: neither the advertised return address nor the socket's file name contains any 8-character piece of the connect id. (6) a nested multi-hop contact (entry#7#3) through Dial against a scripted entry broker answering on the request's own connection with {matching hello, wrong id, empty id, garbage, failure reply}: only the matching hello yields a connection, every other answer ends in an error with the broker connection closed. (7) held hellos: legitimate and rogue connections {wrong id, garbage, mute; thorough: earlier id, two rogues} are opened and greeted in every interleaving on the TCP listener and on a shared-port endpoint (SendForwardedConn), GC suspended: only the connection that presented the id is returned, every other one that reached the port ends closed.",
		Assume: []string{"(3) uses real loopback TCP and goroutines: where a failure reply and the matching hello are both available either documented outcome is accepted", "the 'nothing decisive arrives' scripts rely on the dial's own 300 ms timeout"},
	}
	p.Gen = func(tier string, yield func(vlib.Case)) {
		L := 3
		if tier == "thorough" {
			L = 4
		}
		p.Bounds = map[string]any{"accept_sequence_len": L, "connection_kinds": len(c20Kinds)}
		for _, first := range c20Kinds {
			first := first
			yield(vlib.Case{ID: "accept/first=" + first, Run: func() *vlib.Result {
				res := &vlib.Result{}
				var rec func(seq []string)
				rec = func(seq []string) {
					c20AcceptSeq(res, seq)
					if len(seq) == L {
						return
					}
					for _, k := range c20Kinds {
						rec(append(append([]string{}, seq...), k))
					}
				}
				rec([]string{first})
				res.Sample = map[string]any{"first": first, "sequences": res.Evals}
				return res
			}})
		}
		yield(vlib.Case{ID: "proxy", Run: func() *vlib.Result {
			res := &vlib.Result{}
			for _, r := range c20ProxyReplies {
				c20Proxy(res, r)
			}
			return res
		}})
		yield(vlib.Case{ID: "connect-ids-across-processes", Run: func() *vlib.Result {
			res := &vlib.Result{}
			c20Predictable(res)
			return res
		}})
		yield(vlib.Case{ID: "connect-ids", Run: func() *vlib.Result {
			res := &vlib.Result{Evals: 10000, Nontrivial: 10000}
			seen := map[string]bool{}
			for i := 0; i < 10000; i++ {
				id, err := ccb.GenerateConnectID()
				if err != nil || len(id) != 40 || strings.Trim(id, "0123456789abcdef") != "" {
					res.Violate("C20/connect-id-shape", "%q %v", id, err)
					break
				}
				if seen[id] {
					res.Violate("C20/connect-id-repeated", "%q", id)
					break
				}
				seen[id] = true
			}
			res.Outcome("ids-distinct")
			return res
		}})
		events := []string{"reply-ok", "reply-fail", "legit", "rogue-wrong", "rogue-old", "rogue-garbage", "rogue-close"}
		var scripts [][]string
		var gen func(s []string)
		gen = func(s []string) {
			if len(s) > 0 {
				scripts = append(scripts, append([]string{}, s...))
			}
			if len(s) == 3 || (tier != "thorough" && len(s) == 2) {
				return
			}
			for _, e := range events {
				dup := false
				for _, x := range s {
					if x == e && !strings.HasPrefix(e, "rogue") {
						dup = true
					}
					if strings.HasPrefix(x, "reply-") && strings.HasPrefix(e, "reply-") {
						dup = true // the dialer reads exactly one broker reply
					}
				}
				if !dup {
					gen(append(s, e))
				}
			}
		}
		gen(nil)
		for _, sc := range scripts {
			sc := sc
			yield(vlib.Case{ID: "dial/" + strings.Join(sc, ","), Run: func() *vlib.Result {
				res := &vlib.Result{}
				o1 := c20DialOne(res, sc)
				o2 := c20DialOne(res, sc)
				tie := false
				hasL, hasF := false, false
				for _, e := range sc {
					hasL = hasL || e == "legit"
					hasF = hasF || e == "reply-fail"
				}
				tie = hasL && hasF
				if o1 != o2 && !tie {
					res.Violate("C20/dial/outcome-not-deterministic", "script [%s]: %s then %s", strings.Join(sc, ","), o1, o2)
				}
				res.Sample = sc
				return res
			}})
		}
		for _, ans := range []string{"nested-hello-right", "nested-hello-wrong", "nested-hello-empty", "nested-hello-garbage", "nested-reply-fail"} {
			ans := ans
			yield(vlib.Case{ID: "nested-contact/" + ans, Run: func() *vlib.Result {
				res := &vlib.Result{}
				c20Nested(res, ans)
				return res
			}})
		}
		c20HeldCases(tier, yield)
		yield(vlib.Case{ID: "shared-port-endpoint/anonymous-name", Run: func() *vlib.Result {
			res := &vlib.Result{}
			c20Unguessable(res)
			return res
		}})
		for n := 2; n <= 3; n++ {
			for _, st := range []time.Duration{-1, 20 * time.Millisecond} {
				n, st := n, st
				yield(vlib.Case{ID: fmt.Sprintf("multi-fresh-id/brokers=%d/stagger=%v", n, st), Run: func() *vlib.Result {
					res := &vlib.Result{}
					c20FreshID(res, n, st)
					return res
				}})
			}
		}
		for n := 1; n <= 3; n++ {
			for mask := 0; mask < 1<<uint(n); mask++ {
				for _, st := range []time.Duration{-1, 20 * time.Millisecond} {
					wk := make([]bool, n)
					for i := range wk {
						wk[i] = mask&(1<<uint(i)) != 0
					}
					st := st
					yield(vlib.Case{ID: fmt.Sprintf("multi/%v/stagger=%v", wk, st), Run: func() *vlib.Result {
						res := &vlib.Result{}
						c20MultiBroker(res, wk, st)
						return res
					}})
				}
			}
		}
	}
	return p
}


// C20IDWorker (a fresh process, see c20Predictable): prints the first connect ids this process
// generates.
func C20IDWorker() {
	for i := 0; i < 4; i++ {
		id, err := ccb.GenerateConnectID()
		fmt.Println("ID", id, err)
	}
}

// c20Predictable: "unguessable" cannot be enumerated, but one way of being guessable can be
// decided exactly: an identifier drawn from a generator that the process environment can pin.
// Two fresh processes are started with Go's automatic seeding of math/rand switched off
// (GODEBUG=randautoseed=0, a legal runtime setting): if the connect ids they generate are the
// same, anybody who knows the setting can compute the ids of a request it never saw.
func c20Predictable(res *vlib.Result) {
	res.Evals++
	res.Nontrivial++
	self, _ := os.Executable()
	run := func(godebug string) string {
		cmd := exec.Command(self, "C20", "quick")
		cmd.Env = append(os.Environ(), "VERIF_C20_IDWORKER=1", "GODEBUG="+godebug)
		b, _ := cmd.Output()
		return string(b)
	}
	for _, gd := range []string{"randautoseed=0", "randautoseed=0,randseednop=0"} {
		a, b := run(gd), run(gd)
		if !strings.Contains(a, "ID ") {
			res.Violate("C20/harness", "id worker printed nothing: %q", a)
			return
		}
		if a == b {
			res.Violate("C20/connect-id-predictable", "two fresh processes started with GODEBUG=%s generate the same connect ids (%s...): the ids come from a generator the environment can pin, not from the system's random source", gd, strings.SplitN(strings.TrimPrefix(a, "ID "), " ", 2)[0])
			return
		}
	}
	res.Outcome("connect-ids-differ-across-pinned-processes")
}
