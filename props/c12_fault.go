package props

// C12, send histories with a failing transport: the k-th write of the connection delivers
// only its first `keep` bytes and returns an error; the application then sends on. Every
// frame that was sealed - including the torn one, whose bytes are on the wire - has used up
// its nonce: no later frame may be sealed under it.

import (
	"bytes"
	"context"
	"errors"
	"fmt"
	"net"
	"time"

	"github.com/bbockelm/cedar/stream"

	"verif/netsim"
	"verif/refcodec"
	"verif/vlib"
)

type c12FaultConn struct {
	buf    *netsim.Buf
	n      int
	failAt int
	keep   int
	tornAt int // offset in buf.W where the torn write began (-1: none yet)
	tornN  int
	full   []byte // the whole buffer handed to the failing write
}

func (c *c12FaultConn) Read(p []byte) (int, error) { return c.buf.Read(p) }
func (c *c12FaultConn) Write(p []byte) (int, error) {
	c.n++
	if c.n == c.failAt {
		k := c.keep
		if k > len(p) {
			k = len(p)
		}
		if k < 0 {
			k = len(p) + k // negative: all but -k bytes
			if k < 0 {
				k = 0
			}
		}
		c.tornAt, c.tornN = len(c.buf.W), k
		c.full = append([]byte(nil), p...)
		c.buf.W = append(c.buf.W, p[:k]...)
		return k, errors.New("injected: write failed after a partial delivery")
	}
	return c.buf.Write(p)
}
func (c *c12FaultConn) Close() error                       { return nil }
func (c *c12FaultConn) LocalAddr() net.Addr                { return netsim.Addr{Net: "tcp", S: "10.0.0.1:1"} }
func (c *c12FaultConn) RemoteAddr() net.Addr               { return netsim.Addr{Net: "tcp", S: "10.0.0.2:2"} }
func (c *c12FaultConn) SetDeadline(t time.Time) error      { return nil }
func (c *c12FaultConn) SetReadDeadline(t time.Time) error  { return nil }
func (c *c12FaultConn) SetWriteDeadline(t time.Time) error { return nil }

func c12WriteFault(failAt, keep int, sizes []int) *vlib.Result {
	ctx := context.Background()
	res := &vlib.Result{Evals: 1}
	id := fmt.Sprintf("write #%d keeps %d bytes, message sizes %v", failAt, keep, sizes)
	fc := &c12FaultConn{buf: &netsim.Buf{}, failAt: failAt, keep: keep, tornAt: -1}
	s := stream.NewStream(fc)
	if err := s.SetSymmetricKey(testKey); err != nil {
		res.Violate("C12/harness", "%v", err)
		return res
	}
	var plain [][]byte
	var sendErr []error
	for i, n := range sizes {
		p := bytes.Repeat([]byte{byte('a' + i)}, n)
		plain = append(plain, p)
		sendErr = append(sendErr, s.SendMessage(ctx, p))
	}
	if fc.tornAt < 0 {
		res.Outcome("write-fault-not-reached")
		return res
	}
	res.Nontrivial = 1
	W := fc.buf.W
	before, _ := refcodec.ParseFrames(W[:fc.tornAt])
	after, rest := refcodec.ParseFrames(W[fc.tornAt+fc.tornN:])
	dir, _ := refcodec.NewDir(testKey, [32]byte{}, [32]byte{})
	for i, f := range before {
		if _, err := dir.Open(f); err != nil {
			res.Violate("C12/write-fault/ref-cannot-open-before", "%s: frame %d before the fault: %v", id, i, err)
			return res
		}
	}
	if !dir.HaveIV {
		res.Outcome("write-fault-on-first-frame") // the base IV travels in the torn frame: nothing to compare with
		return res
	}
	// the torn frame: which counter was it sealed under? Open the whole buffer the stream tried to write.
	tornFrames, _ := refcodec.ParseFrames(fc.full)
	if len(tornFrames) != 1 {
		res.Outcome("write-fault-not-one-frame")
		return res
	}
	probe := *dir
	probe.Nonces = map[[16]byte]int{}
	if _, err := probe.Open(tornFrames[0]); err != nil {
		res.Violate("C12/write-fault/ref-cannot-open-torn", "%s: the frame whose write failed does not open under the next counter: %v", id, err)
		return res
	}
	tornCounter := dir.Counter
	emittedCiphertext := fc.tornN > 5
	if len(after) == 0 {
		res.Outcome("write-fault-stream-sent-nothing-more")
		return res
	}
	_ = rest
	// the next frame on the wire: under the torn frame's nonce?
	reuse := *dir
	reuse.Nonces = map[[16]byte]int{}
	if _, err := reuse.Open(after[0]); err == nil {
		if emittedCiphertext {
			res.Violate("C12/nonce-reuse/after-failed-write", "%s: the frame sent after the failed write is sealed under counter %d - the nonce of the torn frame, %d bytes of which are on the wire", id, tornCounter, fc.tornN)
		} else {
			res.Outcome("write-fault-counter-reused-nothing-emitted")
		}
		return res
	}
	// otherwise it must continue the sequence: counter+1 onwards
	dir.Counter++
	dir.First = false
	for i, f := range after {
		if _, err := dir.Open(f); err != nil {
			res.Violate("C12/write-fault/ref-cannot-open-after", "%s: frame %d after the failed write opens neither under the torn frame's counter nor under the following ones: %v", id, i, err)
			return res
		}
	}
	res.Outcome("write-fault-sequence-continues")
	return res
}

func c12FaultCases(tier string, yield func(vlib.Case)) {
	const MiB = 1 << 20
	for _, big := range []int{MiB - 40, MiB - 33, MiB - 32, MiB - 31, MiB - 17, MiB - 16, MiB - 15, MiB - 1, MiB, MiB + 1} {
		for _, sizes := range [][]int{{big, 64, 5}, {3, big, 64, 5}, {3, 0, big, big, 7}} {
			big, sizes := big, sizes
			yield(vlib.Case{ID: fmt.Sprintf("refused-send/big=%d/sizes=%v", big-MiB, sizes), Run: func() *vlib.Result { return c12Refused(sizes) }})
		}
	}
	for failAt := 2; failAt <= 4; failAt++ {
		for _, keep := range []int{0, 1, 5, 6, 21, 40, -1} {
			for _, sizes := range [][]int{{3, 64, 64, 5}, {0, 100, 0, 100, 7}, {5000, 5000, 5000, 9}} {
				failAt, keep, sizes := failAt, keep, sizes
				yield(vlib.Case{ID: fmt.Sprintf("write-fault/at=%d/keep=%d/sizes=%v", failAt, keep, sizes), Run: func() *vlib.Result {
					return c12WriteFault(failAt, keep, sizes)
				}})
			}
		}
	}
}

// c12Refused: a send the stream REFUSES (a protected frame that would exceed the frame limit,
// reachable through the raw stream API) must use up nothing: whatever is sent before and after
// it forms one sequence that the reference decryptor opens (base IV and digests with the first
// frame actually emitted, counters without a gap).
func c12Refused(sizes []int) *vlib.Result {
	ctx := context.Background()
	res := &vlib.Result{Evals: 1}
	id := fmt.Sprintf("message sizes %v", sizes)
	b := &netsim.Buf{}
	s := stream.NewStream(b)
	if err := s.SetSymmetricKey(testKey); err != nil {
		res.Violate("C12/harness", "%v", err)
		return res
	}
	var accepted [][]byte
	refused := 0
	for i, n := range sizes {
		p := bytes.Repeat([]byte{byte('a' + i)}, n)
		if err := s.SendMessage(ctx, p); err != nil {
			refused++
			continue
		}
		accepted = append(accepted, p)
	}
	if refused == 0 {
		res.Outcome("nothing-refused")
		return res
	}
	res.Nontrivial = 1
	frames, rest := refcodec.ParseFrames(b.W)
	if len(rest) != 0 {
		res.Violate("C12/refused-send/wire-garbage", "%s: %d stray bytes", id, len(rest))
		return res
	}
	dir, _ := refcodec.NewDir(testKey, [32]byte{}, [32]byte{})
	var got [][]byte
	for i, f := range frames {
		pt, err := dir.Open(f)
		if err != nil {
			res.Violate("C12/refused-send/ref-cannot-open", "%s: %d send(s) were refused; frame %d of the %d emitted does not open under the reference sequence: %v", id, refused, i, len(frames), err)
			return res
		}
		got = append(got, pt)
	}
	if len(got) != len(accepted) {
		res.Violate("C12/refused-send/frame-count", "%s: %d messages accepted, %d frames emitted", id, len(accepted), len(got))
		return res
	}
	for i := range got {
		if !bytes.Equal(got[i], accepted[i]) {
			res.Violate("C12/refused-send/data", "%s: accepted message %d differs on the wire", id, i)
			return res
		}
	}
	// and the real receiver agrees
	r := stream.NewStream(&netsim.Buf{R: b.W})
	_ = r.SetSymmetricKey(testKey)
	for i := range accepted {
		m, err := r.ReceiveCompleteMessage(ctx)
		if err != nil || !bytes.Equal(m, accepted[i]) {
			res.Violate("C12/refused-send/real-receiver", "%s: accepted message %d: %v", id, i, err)
			return res
		}
	}
	res.Outcome(fmt.Sprintf("refused=%d-sequence-intact", refused))
	return res
}
