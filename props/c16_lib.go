package props

// C16, library client: the claim session must also be resumed when the dialling side
// uses the library's own client (client.ConnectAndAuthenticateWithConfig) over a real
// loopback socket, directly and through a shared_port front end, for every legal form
// of the address (parameters before/after sock=, aliases, brackets).

import (
	"context"
	"fmt"
	"net"
	"strings"
	"time"

	"github.com/bbockelm/cedar/client"
	"github.com/bbockelm/cedar/commands"
	"github.com/bbockelm/cedar/message"
	"github.com/bbockelm/cedar/security"
	"github.com/bbockelm/cedar/stream"

	"verif/vlib"
)

// HP = host:port of the listener, HDP = host-port
var c16LibSinfuls = []struct {
	tmpl   string
	shared bool
}{
	{"<HP>", false},
	{"<HP?addrs=HDP&noUDP>", false},
	{"<HP?alias=startd.example.org&addrs=HDP>", false},
	{"<HP?sock=startd_1234_abcd>", true},
	{"<HP?addrs=HDP&noUDP&sock=startd_1234_abcd>", true},
	{"<HP?sock=startd_1234_abcd&addrs=HDP&noUDP>", true},
	{"<HP?alias=startd.example.org&sock=startd_1234_abcd>", true},
	{"<HP?sock=startd_1234_abcd&PrivNet=cluster.example.org>", true},
}

// c16LibOne: dir 0 = the importer dials the minter's sinful; dir 1 = the minter dials
// the importer (whose address is the PeerAddr given at mint time).
func c16LibOne(res *vlib.Result, ti, dir, tag int) {
	res.Evals++
	ln, err := net.Listen("tcp", "127.0.0.1:0")
	if err != nil {
		res.Outcome("listen-failed")
		return
	}
	defer ln.Close()
	hp := ln.Addr().String()
	hdp := strings.Replace(hp, ":", "-", 1)
	mk := func(t string) string {
		return strings.ReplaceAll(strings.ReplaceAll(t, "HDP", hdp), "HP", hp)
	}
	t := c16LibSinfuls[ti]
	dialled := mk(t.tmpl)
	id := fmt.Sprintf("template=%s dir=%d tag=%d", t.tmpl, dir, tag)
	tg := ""
	if tag == 1 {
		tg = "claimtag"
	}
	M, I := security.NewSessionCache(), security.NewSessionCache()
	opts := security.MintClaimOptions{Birthdate: 1700000000, SequenceNum: 7, ValidCommands: []int{443}, Tag: tg}
	impOpts := security.ClaimSessionOptions{Tag: tg}
	if dir == 0 {
		opts.Sinful, opts.PeerAddr = dialled, "<10.9.9.9:7777>"
		impOpts.PeerAddr = dialled
	} else {
		opts.Sinful, opts.PeerAddr = "<10.0.0.7:9618>", dialled
		impOpts.PeerAddr = "<10.0.0.7:9618>"
	}
	mc, err := security.MintClaimSession(M, opts)
	if err != nil {
		res.Violate("C16/mint-error", "%s: %v", id, err)
		return
	}
	sid := mc.SessionID()
	if isid, err := security.ImportClaimSession(I, mc.ClaimID(), impOpts); err != nil || isid != sid {
		res.Violate("C16/import-error", "%s: %v (%q vs %q)", id, err, isid, sid)
		return
	}
	res.Nontrivial++
	cliCache, srvCache := I, M
	if dir == 1 {
		cliCache, srvCache = M, I
	}
	ctx, cancel := context.WithTimeout(context.Background(), 20*time.Second)
	defer cancel()
	type srvOut struct {
		neg     *security.SecurityNegotiation
		err     error
		resumed bool
		spID    string
		got     string
	}
	out := make(chan srvOut, 1)
	go func() {
		var o srvOut
		defer func() { out <- o }()
		conn, err := ln.Accept()
		if err != nil {
			o.err = err
			return
		}
		defer conn.Close()
		if t.shared {
			// condor_shared_port: consume the SHARED_PORT_CONNECT request (it is not answered)
			st := stream.NewStream(conn)
			msg := message.NewMessageFromStream(st)
			cmd, err := msg.GetInt32(ctx)
			if err != nil || cmd != int32(commands.SHARED_PORT_CONNECT) {
				o.err = fmt.Errorf("front end: expected SHARED_PORT_CONNECT, got %d (%v)", cmd, err)
				return
			}
			o.spID, _ = msg.GetString(ctx)
			_, _ = msg.GetString(ctx)
			_, _ = msg.GetInt64(ctx)
			_, _ = msg.GetInt32(ctx)
		}
		sc := baseCfg(security.SecurityOptional, security.SecurityOptional, nil, []security.CryptoMethod{security.CryptoAES}, true)
		sc.SessionCache = srvCache
		st := stream.NewStream(conn)
		a := security.NewAuthenticator(sc, st)
		o.neg, o.err = a.ServerHandshake(ctx)
		o.resumed = a.WasSessionResumed()
		if o.err == nil {
			m := message.NewMessageFromStream(st)
			o.got, _ = m.GetString(ctx)
			r := message.NewMessageForStream(st)
			_ = r.PutString(ctx, "pong-from-server")
			_ = r.FinishMessage(ctx)
		}
	}()
	cc := baseCfg(security.SecurityOptional, security.SecurityOptional, nil, []security.CryptoMethod{security.CryptoAES}, false)
	cc.SessionCache, cc.Command, cc.SecurityTag = cliCache, 443, tg
	res.Transitions++
	cl, cerr := client.ConnectAndAuthenticateWithConfig(ctx, &client.ClientConfig{Address: dialled, Security: cc, Timeout: 10 * time.Second})
	var cneg *security.SecurityNegotiation
	pong := ""
	if cerr == nil {
		cneg = cl.GetSecurityNegotiation()
		m := message.NewMessageForStream(cl.GetStream())
		_ = m.PutString(ctx, "ping-from-client")
		_ = m.FinishMessage(ctx)
		pong, _ = message.NewMessageFromStream(cl.GetStream()).GetString(ctx)
		defer cl.Close()
	} else {
		_ = ln.Close()
	}
	o := <-out
	if o.neg != nil && o.neg.SessionId != sid && o.neg.SessionId != "" {
		security.GetSessionCache().Invalidate(o.neg.SessionId)
	}
	label := []string{"importer-dials", "minter-dials"}[dir] + "-with-library-client"
	gotSid := ""
	if cneg != nil {
		gotSid = cneg.SessionId
	}
	if cerr != nil || o.err != nil || cneg == nil || !cneg.SessionResumed || !o.resumed || gotSid != sid || o.neg == nil || o.neg.SessionId != sid {
		res.Violate("C16/by-command-not-resumed/"+label, "%s: dialling %s for a valid command of the claim did not resume the claim session (client %s server %s; server resumed %v; client session %q, want %q)", id, dialled, errStr(cerr), errStr(o.err), o.resumed, gotSid, sid)
		return
	}
	if o.got != "ping-from-client" || pong != "pong-from-server" {
		res.Violate("C16/no-traffic/"+label, "%s: ping %q pong %q", id, o.got, pong)
	}
	if t.shared && o.spID != "startd_1234_abcd" {
		res.Violate("C16/wrong-shared-port-id/"+label, "%s: front end was asked for %q", id, o.spID)
	}
	res.Outcome("ok-lib")
}
