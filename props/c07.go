package props

// C07 — a client reuses a cached session only for the same server, command and
// tag. E-BFS: histories of client handshakes over (tag, server, command)
// triples interleaved with server restarts, broken resumption exchanges,
// expiry (virtual time), invalidation and sweeps, replayed on a fresh client
// cache and two real servers; de-duplicated by canonical state; every
// handshake and every reachable state is judged against a reference map of
// which session, if any, may be reused.

import (
	"context"
	"fmt"
	"github.com/bbockelm/cedar/ccb"
	"github.com/bbockelm/cedar/stream"
	"net"
	"sort"
	"strings"
	"time"
	"verif/netsim"
	"verif/refcodec"

	"github.com/bbockelm/cedar/security"

	"verif/vlib"
)

var (
	c07Tags = []string{"", "T1", "T2"}
	c07Srvs = c07Layouts[0]
	c07Cmds = []int{5, 6}
)

// Two server layouts (the check is sequential, Workers: 1): two hosts named by
// the connection's peer address, and two daemons behind ONE shared port that
// differ only in the sock= part of the sinful string the client dials (PeerName).
var c07Layouts = [][]string{
	{"10.2.2.2:9618", "10.3.3.3:9618"},
	{"<10.4.4.4:9618?sock=collector>", "<10.4.4.4:9618?sock=schedd>"},
}

func c07SrvIdx(srv string) int {
	if srv == c07Srvs[1] {
		return 1
	}
	return 0
}

// c07ValidFor: server A declares ValidCommands {5}, server B {5,6}.
func c07ValidFor(srv string) []int { return [][]int{{5}, {5, 6}}[c07SrvIdx(srv)] }

func c07NetAddr(srv string) string {
	if strings.HasPrefix(srv, "<") {
		return strings.SplitN(strings.Trim(srv, "<>"), "?", 2)[0]
	}
	return srv
}

type c07Sess struct {
	sid      string
	tag, srv string
	valid    []int
	srvKnows bool
	cliAlive bool // not invalidated / dropped on the client
	exp      int
	minted   bool // created by MintClaimSession in the client's cache (fixed lifetime, no lease)
}

type c07World struct {
	cache *security.SessionCache
	sess  []*c07Sess
	now   int
	res   *vlib.Result
	hist  string
	brk   string // "", "drop-request", "drop-reply": applies to the next handshake
}

func (w *c07World) viol(key, f string, a ...any) {
	w.res.Violate("C07/"+key, "history [%s]: "+f, append([]any{w.hist}, a...)...)
}

func (w *c07World) find(sid string) *c07Sess {
	for _, s := range w.sess {
		if s.sid == sid {
			return s
		}
	}
	return nil
}

func hasCmd(v []int, c int) bool {
	for _, x := range v {
		if x == c {
			return true
		}
	}
	return false
}

// allowed: sessions the reference permits for (tag, srv, cmd).
func (w *c07World) allowed(tag, srv string, cmd int) map[string]bool {
	out := map[string]bool{}
	for _, s := range w.sess {
		if s.tag == tag && s.srv == srv && hasCmd(s.valid, cmd) && s.cliAlive && w.now < s.exp-30 {
			out[s.sid] = true
		}
	}
	return out
}

func peerKey(srv string) string {
	if strings.HasPrefix(srv, "<") {
		return srv // the client keys its cache on the PeerName it was given
	}
	return "<" + srv + ">"
}

func (w *c07World) handshake(tag, srv string, cmd int, authCmd ...int) {
	cc := baseCfg(security.SecurityRequired, security.SecurityRequired, []security.AuthMethod{mCTB}, []security.CryptoMethod{security.CryptoAES}, false)
	cc.SessionCache, cc.Command, cc.SecurityTag = w.cache, cmd, tag
	if len(authCmd) > 0 {
		cc.AuthCommand = authCmd[0] // a sub-command of the handshake; the command served is still cmd
	}
	sc := baseCfg(security.SecurityRequired, security.SecurityRequired, []security.AuthMethod{mCTB}, []security.CryptoMethod{security.CryptoAES}, true)
	sc.SessionDuration, sc.SessionLease = 3600, 1800
	valid := c07ValidFor(srv)
	if strings.HasPrefix(srv, "<") {
		cc.PeerName = srv
	}
	sc.PostAuthPolicy = func(u, p string, a, e bool) (string, []int) { return "", valid }
	brk := w.brk
	w.brk = ""
	o := hsOpts{ClientCfg: cc, ServerCfg: sc, App: true, ServerAddr: c07NetAddr(srv)}
	if brk == "drop-request" {
		o.HookC2S = func(i int, f []byte) [][]byte {
			if i == 0 {
				return nil
			}
			return [][]byte{f}
		}
	} else if brk == "drop-reply" {
		o.HookS2C = func(i int, f []byte) [][]byte {
			if i == 0 {
				return nil
			}
			return [][]byte{f}
		}
	}
	if brk == "invalidate-in-flight" {
		// while this connection's resumption is in flight (request sent, reply on its way) the
		// session is invalidated from elsewhere - another connection's failure, an explicit call
		inflight := ""
		o.HookC2S = func(i int, f []byte) [][]byte {
			if i == 0 && len(f) > 13 {
				if ad := (&wireReader{b: f[5+8:]}).ad(); ad.str("UseSession") == "YES" {
					inflight = ad.str("Sid")
				}
			}
			return [][]byte{f}
		}
		o.HookS2C = func(i int, f []byte) [][]byte {
			if i == 0 && inflight != "" {
				w.cache.Invalidate(inflight)
			}
			return [][]byte{f}
		}
	}
	if brk == "stall-cancel" {
		// the peer takes the request but never answers; the client's context is
		// cancelled while it waits for the reply (its second connection operation)
		ctx, cancel := context.WithCancel(context.Background())
		defer cancel()
		o.ClientCtx, o.ClientStall, o.Stalled, o.Watchdog = ctx, 2, make(chan struct{}), 20*time.Second
		go func() {
			select {
			case <-o.Stalled:
				cancel()
			case <-ctx.Done():
			}
		}()
	}
	r := hsRun(o)
	w.res.Transitions++
	// what did the client put on the wire? a resumption request names a Sid
	reqSid := ""
	if len(r.C2S) > 0 {
		ad := (&wireReader{b: r.C2S[0][5+8:]}).ad()
		if ad.str("UseSession") == "YES" {
			reqSid = ad.str("Sid")
		}
	}
	id := fmt.Sprintf("handshake(tag=%q,srv=%s,cmd=%d,break=%q)", tag, srv, cmd, brk)
	allowed := w.allowed(tag, srv, cmd)
	if reqSid != "" {
		s := w.find(reqSid)
		if !allowed[reqSid] {
			why := "unknown session"
			if s != nil {
				switch {
				case s.tag != tag:
					why = fmt.Sprintf("it was established under tag %q", s.tag)
				case s.srv != srv:
					why = "it belongs to server " + s.srv
				case !hasCmd(s.valid, cmd):
					why = fmt.Sprintf("command %d is not in its ValidCommands %v", cmd, s.valid)
				case !s.cliAlive:
					why = "it was invalidated / dropped"
				case w.now >= s.exp-30:
					if w.now <= s.exp+30 {
						why = ""
					} else {
						why = "it has expired"
					}
				}
			}
			if why != "" {
				k := "foreign-session"
				if s != nil && s.tag != tag {
					k = fmt.Sprintf("tag-crossed/session-tag=%q/handshake-tag=%q", s.tag, tag)
				}
				w.viol("rode-"+k, "%s asked the server to resume session %s although %s", id, short(reqSid), why)
			}
		}
		ok := r.C.Err == nil && r.S.Err == nil && r.C.Resumed
		if brk == "invalidate-in-flight" && s != nil {
			// whatever this connection went on to do, the session was invalidated: no later
			// handshake may be routed to it
			s.cliAlive = false
			if ok {
				w.res.Outcome("resumed-while-invalidated-in-flight")
				return
			}
		}
		if ok {
			if s != nil && !s.minted {
				s.exp = w.now + 1800
			}
			w.res.Outcome("resumed")
			return
		}
		// failed resumption: the cached session and all its routes must be gone
		w.res.Outcome("resumption-failed")
		if s != nil {
			s.cliAlive = false
		}
		if _, ok := w.cache.Lookup(reqSid); ok {
			w.viol("failed-resumption-session-kept", "%s: resumption of %s failed (%s) but the session is still in the client cache", id, short(reqSid), errStr(r.C.Err))
		}
		for _, t := range c07Tags {
			for _, sv := range c07Srvs {
				for _, c := range c07Cmds {
					if e, ok := w.cache.LookupByCommand(t, peerKey(sv), fmt.Sprint(c)); ok && e.ID() == reqSid {
						w.viol("failed-resumption-route-kept", "%s: resumption of %s failed but (tag=%q,srv=%s,cmd=%d) still routes to it", id, short(reqSid), t, sv, c)
					}
				}
			}
		}
		return
	}
	if r.C.Err != nil || r.S.Err != nil {
		w.res.Outcome("full-handshake-failed")
		return
	}
	// full handshake: new session
	w.sess = append(w.sess, &c07Sess{sid: r.C.Neg.SessionId, tag: tag, srv: srv, valid: valid, srvKnows: true, cliAlive: true, exp: w.now + 3600})
	w.res.Outcome("full-handshake")
}

func short(s string) string {
	if i := strings.LastIndex(s, ":"); i >= 0 {
		return "#" + s[i+1:]
	}
	return s
}

// checkRoutes: every route present in the real cache must be allowed by the reference.
func (w *c07World) checkRoutes() {
	for _, t := range c07Tags {
		for _, sv := range c07Srvs {
			for _, c := range c07Cmds {
				e, ok := w.cache.LookupByCommand(t, peerKey(sv), fmt.Sprint(c))
				if !ok {
					continue
				}
				s := w.find(e.ID())
				if s == nil {
					w.viol("route-to-unknown", "(tag=%q,srv=%s,cmd=%d) routes to unknown session", t, sv, c)
					continue
				}
				if abs(w.now-s.exp) <= 30 {
					continue
				}
				if !w.allowed(t, sv, c)[e.ID()] {
					k := "stale-route"
					if s.tag != t {
						k = fmt.Sprintf("route-crosses-tag/session-tag=%q/lookup-tag=%q", s.tag, t)
					} else if !s.cliAlive {
						k = "route-to-invalidated"
					} else if w.now > s.exp {
						k = "route-to-expired"
					}
					w.viol(k, "client cache routes (tag=%q,srv=%s,cmd=%d) to session %s established under (tag=%q,srv=%s,valid=%v, alive=%v, exp=%d, now=%d)", t, sv, c, short(e.ID()), s.tag, s.srv, s.valid, s.cliAlive, s.exp, w.now)
				}
			}
		}
	}
}

func c07Events() []string {
	var ev []string
	for _, t := range c07Tags {
		for _, s := range []string{"A", "B"} {
			for _, c := range c07Cmds {
				ev = append(ev, fmt.Sprintf("hs:%s:%s:%d", t, s, c))
			}
		}
	}
	// a handshake for command 6 that carries the OTHER command (5) as its AuthCommand sub-command
	ev = append(ev, "hsa:T1:A", "hsa::B")
	// the client process mints a claim session of its own (tag T1 towards A, no tag towards B,
	// command 5) and the server imports the claim id
	ev = append(ev, "mint:T1:A", "mint::B")
	return append(ev, "restartA", "restartB", "break-request", "break-reply", "break-stall", "break-invalidate", "adv1860", "adv3660", "invalidate-last", "sweep")
}

func (w *c07World) apply(ev string) bool {
	switch {
	case strings.HasPrefix(ev, "hs:"):
		p := strings.Split(ev, ":")
		srv := c07Srvs[0]
		if p[2] == "B" {
			srv = c07Srvs[1]
		}
		cmd := 5
		if p[3] == "6" {
			cmd = 6
		}
		w.handshake(p[1], srv, cmd)
		return true
	case strings.HasPrefix(ev, "hsa:"):
		p := strings.Split(ev, ":")
		srv := c07Srvs[0]
		if p[2] == "B" {
			srv = c07Srvs[1]
		}
		w.handshake(p[1], srv, 6, 5)
		return true
	case strings.HasPrefix(ev, "mint:"):
		p := strings.Split(ev, ":")
		srv := c07Srvs[0]
		if p[2] == "B" {
			srv = c07Srvs[1]
		}
		for _, x := range w.sess {
			if x.minted && x.srv == srv {
				return false // one minted claim per server is enough
			}
		}
		mc, err := security.MintClaimSession(w.cache, security.MintClaimOptions{Sinful: "<10.1.1.1:5000>", Birthdate: 1700000000, SequenceNum: len(w.sess) + 1,
			PeerAddr: peerKey(srv), ValidCommands: []int{5}, Tag: p[1], Lifetime: 3600 * time.Second})
		if err != nil {
			w.viol("harness-mint", "%v", err)
			return false
		}
		if _, err := security.ImportClaimSession(security.GetSessionCache(), mc.ClaimID(), security.ClaimSessionOptions{PeerAddr: "<10.1.1.1:5000>", Tag: p[1]}); err != nil {
			w.viol("harness-mint", "import: %v", err)
			return false
		}
		w.sess = append(w.sess, &c07Sess{sid: mc.SessionID(), tag: p[1], srv: srv, valid: []int{5}, srvKnows: true, cliAlive: true, exp: w.now + 3600, minted: true})
		return true
	case ev == "restartA" || ev == "restartB":
		srv := c07Srvs[0]
		if ev == "restartB" {
			srv = c07Srvs[1]
		}
		any := false
		for _, s := range w.sess {
			if s.srv == srv && s.srvKnows {
				security.GetSessionCache().Invalidate(s.sid)
				s.srvKnows = false
				any = true
			}
		}
		return any
	case ev == "break-stall":
		if w.brk != "" || len(w.sess) == 0 {
			return false
		}
		w.brk = "stall-cancel"
		return true
	case ev == "break-invalidate":
		if w.brk != "" || len(w.sess) == 0 {
			return false
		}
		w.brk = "invalidate-in-flight"
		return true
	case ev == "break-request" || ev == "break-reply":
		if w.brk != "" || len(w.sess) == 0 {
			return false
		}
		w.brk = "drop-" + strings.TrimPrefix(ev, "break-")
		return true
	case ev == "adv1860" || ev == "adv3660":
		if len(w.sess) == 0 {
			return false
		}
		d := 1860
		if ev == "adv3660" {
			d = 3660
		}
		w.now += d
		for _, c := range []*security.SessionCache{w.cache, security.GetSessionCache()} {
			for _, e := range c.Snapshot() {
				if !e.Expiration().IsZero() {
					c.Store(security.NewSessionEntry(e.ID(), e.Addr(), e.KeyInfo(), e.Policy(), e.Expiration().Add(-time.Duration(d)*time.Second), e.Lease(), e.Tag()))
				}
			}
		}
		return true
	case ev == "invalidate-last":
		for i := len(w.sess) - 1; i >= 0; i-- {
			if w.sess[i].cliAlive {
				w.cache.Invalidate(w.sess[i].sid)
				w.sess[i].cliAlive = false
				return true
			}
		}
		return false
	case ev == "sweep":
		if len(w.sess) == 0 {
			return false
		}
		w.cache.InvalidateExpired()
		for _, s := range w.sess {
			if w.now > s.exp+30 {
				s.cliAlive = false
			}
		}
		return true
	}
	panic(ev)
}

func (w *c07World) stateKey() string {
	var parts []string
	for i, s := range w.sess {
		st := "live"
		if !s.cliAlive {
			st = "dropped"
		} else if w.now > s.exp {
			st = "expired"
		} else if s.exp-w.now <= 1800 {
			st = "live-short"
		}
		parts = append(parts, fmt.Sprintf("%d:%q@%s%v/%s/srv=%v/minted=%v", i, s.tag, string(rune('A'+c07SrvIdx(s.srv))), s.valid, st, s.srvKnows, s.minted))
	}
	sort.Strings(parts)
	return strings.Join(parts, " ") + " brk=" + w.brk
}

func c07Replay(hist []string, res *vlib.Result) *c07World {
	security.ClearSessionCache()
	w := &c07World{cache: security.NewSessionCache(), res: res, hist: strings.Join(hist, " ")}
	for _, ev := range hist {
		if !w.apply(ev) {
			return nil
		}
		w.checkRoutes()
	}
	return w
}

func c07BFS(depth, maxSessions, layout int, res *vlib.Result) {
	c07Srvs = c07Layouts[layout]
	seen := map[string]bool{" brk=": true}
	frontier := [][]string{nil}
	evs := c07Events()
	for d := 0; d < depth && len(frontier) > 0; d++ {
		var next [][]string
		for _, h := range frontier {
			for _, ev := range evs {
				hh := append(append([]string{}, h...), ev)
				w := c07Replay(hh, res)
				if w == nil {
					continue
				}
				res.Evals++
				nh := 0
				for _, e := range hh {
					if strings.HasPrefix(e, "hs:") {
						nh++
					}
				}
				if nh >= 2 {
					res.Nontrivial++
				}
				if len(w.sess) > maxSessions {
					continue
				}
				k := w.stateKey()
				// sessions are anonymous in the key only up to their (tag,srv) identity;
				// that is exactly what the reference map distinguishes.
				if !seen[k] {
					seen[k] = true
					res.States = append(res.States, k)
					next = append(next, hh)
				}
			}
		}
		frontier = next
	}
	res.Sample = map[string]any{"depth": depth, "canonical_states": len(seen), "events": evs}
}

// c07Carrier: two brokers reached through a caller-supplied carrier (ccb's BrokerDialer,
// e.g. a tunnel) whose connections all report the SAME remote address. The client's
// session cache must still tell the brokers apart by the address that was dialled.
func c07Carrier(res *vlib.Result) {
	ctx := context.Background()
	cache := security.NewSessionCache()
	brokers := []string{"10.5.5.5:9618", "10.6.6.6:9618", "10.5.5.5:9618"}
	sids := map[string]string{}
	for step, broker := range brokers {
		res.Evals++
		res.Nontrivial++
		res.Transitions++
		w := netsim.NewWorld(2)
		ce, se := netsim.Pipe(w, "10.1.1.1:5000", "10.0.0.9:1") // the carrier's own endpoint, the same for every broker
		se.Record = true
		sc := baseCfg(security.SecurityRequired, security.SecurityRequired, []security.AuthMethod{mCTB}, []security.CryptoMethod{security.CryptoAES}, true)
		sc.PostAuthPolicy = func(u, p string, a, e bool) (string, []int) { return "", []int{ccb.CommandRequest} }
		var sneg *security.SecurityNegotiation
		var serr error
		done := make(chan struct{})
		go func() {
			defer close(done)
			defer w.Done()
			st := stream.NewStream(se)
			sneg, serr = security.NewAuthenticator(sc, st).ServerHandshake(ctx)
			se.Close()
		}()
		cc := baseCfg(security.SecurityRequired, security.SecurityRequired, []security.AuthMethod{mCTB}, []security.CryptoMethod{security.CryptoAES}, false)
		cc.SessionCache = cache
		neg, err := ccb.VerifDialBrokerAuthCmd(ctx, broker, cc, ccb.CommandRequest, func(ctx context.Context, addr string) (net.Conn, error) { return ce, nil })
		w.Done()
		<-done
		id := fmt.Sprintf("carrier connection %d to broker %s", step, broker)
		if err != nil || serr != nil {
			res.Violate("C07/carrier/handshake-failed", "%s: client %s server %s", id, errStr(err), errStr(serr))
			return
		}
		_ = sneg
		reqSid := ""
		if fr, _ := refcodec.ParseFrames(se.Got); len(fr) > 0 && len(fr[0].Body) > 8 {
			ad := (&wireReader{b: fr[0].Body[8:]}).ad()
			if ad.str("UseSession") == "YES" {
				reqSid = ad.str("Sid")
			}
		}
		if reqSid != "" && sids[broker] != reqSid {
			owner := "nobody"
			for b, s := range sids {
				if s == reqSid {
					owner = b
				}
			}
			res.Violate("C07/carrier/rode-foreign-session", "%s: the client asked to resume session %s, which it established with broker %s (connections through the carrier all report remote address 10.0.0.9:1)", id, short(reqSid), owner)
		}
		if reqSid == "" {
			sids[broker] = neg.SessionId
		}
		res.Outcome(map[bool]string{true: "carrier-resumed", false: "carrier-full-handshake"}[reqSid != ""])
	}
}

func C07Plan() *vlib.Plan {
	p := &vlib.Plan{
		Property: "C07", Level: "model_checking", Workers: 1,
		Rule:   "E-BFS over client-side histories: 12 handshake events (tag in {'',T1,T2} x server in {A,B} x command in {5,6}; A declares ValidCommands {5}, B {5,6}) + restart A/B (server forgets), break the next resumption exchange (request lost / reply lost / peer silent until the client's context is cancelled), advance virtual time (lease+60, duration+60), invalidate the newest session, sweep expired. Histories are replayed on a fresh client cache against two real servers, in two layouts: two hosts (cache keyed by the connection's peer address) and two daemons behind one shared port whose sinful strings differ only in sock= (cache keyed by the PeerName the client dials); canonical state = multiset of (tag, server, ValidCommands, status, server-knows) + pending break. Oracle: reference map (tag, address, command) -> sessions that may be reused; the request the server receives (parsed off the wire) must name only an allowed session; after a failed resumption the session and every route to it are gone; after every event every route in the real cache must be allowed by the reference. Only safety is demanded (not resuming is never a violation). Plus the ccb broker path with a caller-supplied carrier whose connections all report one remote address: broker A, broker B, broker A again - B must not be asked to resume A's session.",
		Assume: []string{"virtual time by re-storing entries with shifted expirations; judgements within 30 s of an expiry are skipped", "sequential, one process (server cache is process-global)"},
	}
	p.Gen = func(tier string, yield func(vlib.Case)) {
		D, S := 3, 2
		if tier == "thorough" {
			D, S = 4, 3
		}
		p.Bounds = map[string]any{"history_depth": D, "max_sessions_tracked": S}
		yield(vlib.Case{ID: fmt.Sprintf("bfs/depth=%d", D), Run: func() *vlib.Result {
			res := &vlib.Result{}
			c07BFS(D, S, 0, res)
			return res
		}})
		yield(vlib.Case{ID: "ccb-carrier/two-brokers-one-remote-address", Run: func() *vlib.Result {
			res := &vlib.Result{}
			c07Carrier(res)
			return res
		}})
		yield(vlib.Case{ID: fmt.Sprintf("bfs/shared-port-daemons/depth=%d", D), Run: func() *vlib.Result {
			res := &vlib.Result{}
			c07BFS(D, S, 1, res)
			return res
		}})
	}
	return p
}
