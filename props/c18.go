package props

// C18 — filesystem authentication cannot be steered outside its directory.
// E-ENUM inside a private mount namespace (fresh tmpfs on /tmp): a scripted
// server sends every path of a component grammar to the real FS client half;
// recursive snapshots of /tmp, a scratch CWD and decoy directories are taken
// before, at the moment the server holds the client's answer, and after. The
// server half is run against every kind of object a client might leave.

import (
	"context"
	"fmt"
	"net"
	"os"
	"os/user"
	"path/filepath"
	"regexp"
	"sort"
	"strings"
	"sync"
	"syscall"

	"github.com/bbockelm/cedar/security"
	"github.com/bbockelm/cedar/stream"

	"verif/netsim"
	"verif/refcodec"
	"verif/vlib"
)

var c18Mu sync.Mutex // the filesystem is shared: one exchange at a time

type snap map[string]string // path -> "type mode"

func takeSnap(roots ...string) snap {
	s := snap{}
	for _, r := range roots {
		_ = filepath.Walk(r, func(p string, fi os.FileInfo, err error) error {
			if err != nil || p == r {
				return nil
			}
			if strings.HasPrefix(filepath.Base(p), "go-build") || strings.HasPrefix(p, "/tmp/go-build") {
				return filepath.SkipDir
			}
			s[p] = fmt.Sprintf("%v", fi.Mode())
			return nil
		})
	}
	return s
}

func snapDiff(a, b snap) (added, removed []string) {
	for k, v := range b {
		if av, ok := a[k]; !ok || av != v {
			added = append(added, k+" "+v)
		}
	}
	for k := range a {
		if _, ok := b[k]; !ok {
			removed = append(removed, k)
		}
	}
	sort.Strings(added)
	sort.Strings(removed)
	return
}

var (
	refLocalLeaf  = regexp.MustCompile(`^FS_[A-Za-z0-9]{1,16}$`)
	refRemoteLeaf = regexp.MustCompile(`^FS_REMOTE_[A-Za-z0-9._\-]+_[0-9]+_[A-Za-z0-9]{1,16}$`)
	refSuffix     = regexp.MustCompile(`^[A-Za-z0-9]{1,16}$`)
)

// refAccept: independent validator written from the property statement.
func refAccept(path string, remote bool, peer string) bool {
	if !strings.HasPrefix(path, "/tmp/") {
		return false
	}
	leaf := path[len("/tmp/"):]
	if leaf == "" || strings.ContainsAny(leaf, "/\x00") || leaf == "." || leaf == ".." {
		return false
	}
	prefix := "FS_"
	if remote {
		prefix = "FS_REMOTE_"
	}
	if !strings.HasPrefix(leaf, prefix) {
		return false
	}
	rest := leaf[len(prefix):]
	if !remote && strings.HasPrefix(rest, "REMOTE_") {
		return false
	}
	f := strings.Split(rest, "_")
	if len(f) == 3 && net.ParseIP(f[0]) != nil && refSuffix.MatchString(f[2]) && len(f[1]) >= 1 && len(f[1]) <= 5 && strings.Trim(f[1], "0123456789") == "" {
		// address-qualified: must name the endpoint we are really connected to
		h, p, err := net.SplitHostPort(peer)
		if err != nil {
			return false
		}
		return p == f[1] && net.ParseIP(h) != nil && net.ParseIP(h).Equal(net.ParseIP(f[0]))
	}
	if remote {
		return refRemoteLeaf.MatchString(leaf)
	}
	return refLocalLeaf.MatchString(leaf)
}

type c18Env struct {
	scratch string
	decoy   string
	tmpdir  string
}

var (
	c18Once sync.Once
	c18E    *c18Env
)

func c18Setup() *c18Env {
	c18Once.Do(func() {
		base := filepath.Join(verifDir(), ".build", fmt.Sprintf("c18-%d", os.Getpid()))
		_ = os.RemoveAll(base)
		e := &c18Env{scratch: filepath.Join(base, "cwd"), decoy: filepath.Join(base, "decoy")}
		_ = os.MkdirAll(e.scratch, 0o755)
		_ = os.MkdirAll(e.decoy, 0o755)
		_ = os.MkdirAll(filepath.Join(e.scratch, "tmp"), 0o755)
		_ = os.MkdirAll("/tmp/sub", 0o755)
		_ = os.Symlink(e.decoy, "/tmp/link")
		_ = os.Symlink("/tmp", filepath.Join(e.decoy, "totmp")) // a parent elsewhere that RESOLVES to /tmp
		_ = os.Chdir(e.scratch)
		// the process's TMPDIR points somewhere else: the fixed base directory is /tmp whatever
		// the environment says, and nothing may appear under $TMPDIR
		e.tmpdir = filepath.Join(base, "tmpdir")
		_ = os.MkdirAll(e.tmpdir, 0o755)
		_ = os.Setenv("TMPDIR", e.tmpdir)
		c18E = e
	})
	return c18E
}

func (e *c18Env) roots() []string { return []string{"/tmp", e.scratch, e.decoy, e.tmpdir} }

// c18Client: one exchange of the real client half against a scripted server.
func c18Client(res *vlib.Result, path string, remote bool, peer string, variant string) {
	c18Mu.Lock()
	defer c18Mu.Unlock()
	e := c18Setup()
	res.Evals++
	ctx := context.Background()
	w := netsim.NewWorld(2)
	ce, se := netsim.Pipe(w, "10.1.1.1:40001", peer)
	before := takeSnap(e.roots()...)
	var mid snap
	clientResult := int64(-99)
	var wg sync.WaitGroup
	wg.Add(2)
	go func() { // scripted server
		defer wg.Done()
		defer w.Done()
		p := &peerConn{end: se}
		pl := refcodec.EncString(path, false)
		if variant == "trailing" {
			pl = append(pl, 'X', 'Y')
		}
		if err := p.sendMsg(pl, false); err != nil {
			return
		}
		if variant == "close-after-path" {
			se.Close()
			return
		}
		m, err := p.recvMsg()
		if err != nil {
			return
		}
		clientResult = (&wireReader{b: m}).int()
		mid = takeSnap(e.roots()...)
		if variant == "close-after-answer" {
			// the verdict never arrives: the server hangs up right after reading the answer
			se.Close()
			return
		}
		ans := int64(0)
		if variant == "answer-fail" {
			ans = -1
		}
		_ = c18Label
		_ = p.sendMsg(refcodec.EncInt(ans), false)
	}()
	var cerr error
	var cpanic string
	go func() {
		defer wg.Done()
		defer w.Done()
		defer func() {
			if x := recover(); x != nil {
				cpanic = fmt.Sprint(x)
				ce.Close()
			}
		}()
		st := stream.NewStream(ce)
		if strings.HasPrefix(variant, "labelled-") {
			// the stream carries a peer LABEL (what was dialled: a broker's or shared port's address)
			// that differs from the endpoint the socket is really connected to
			st.SetPeerAddr("<" + c18Label + ">")
		}
		cerr = security.VerifFSClient(ctx, st, remote)
		ce.Close()
	}()
	wg.Wait()
	after := takeSnap(e.roots()...)
	id := fmt.Sprintf("path=%q remote=%v peer=%s server=%s", path, remote, peer, variant)
	if cpanic != "" {
		res.Violate("C18/client-panic", "%s: %s", id, cpanic)
	}
	accept := refAccept(path, remote, peer)
	res.Nontrivial++
	class := "rejected-path"
	if accept {
		class = "accepted-path"
	}
	if mid != nil {
		added, removed := snapDiff(before, mid)
		if len(removed) > 0 {
			res.Violate("C18/removed-something/"+class, "%s: filesystem entries disappeared: %v", id, removed)
		}
		if len(added) > 1 {
			res.Violate("C18/more-than-one-created/"+class, "%s: %v", id, added)
		}
		if len(added) > 0 && !accept {
			res.Violate("C18/created-for-unacceptable-path/"+variant, "%s: the client created %v although the path is outside the accepted shapes", id, added)
		}
		if len(added) == 1 {
			want := filepath.Clean(path) + " drwx------"
			if accept && added[0] != want {
				res.Violate("C18/created-wrong-object", "%s: created %q, expected %q", id, added[0], want)
			}
		}
		if (clientResult == 0) != (len(added) == 1) {
			res.Violate("C18/result-vs-creation/"+class, "%s: client answered %d but %d directories were created", id, clientResult, len(added))
		}
		if !accept && clientResult == 0 {
			res.Violate("C18/success-reply-for-unacceptable-path", "%s", id)
		}
	}
	added, removed := snapDiff(before, after)
	if len(added) > 0 || len(removed) > 0 {
		res.Violate("C18/not-cleaned-up/"+variant+"/"+class, "%s: after the exchange the filesystem differs from before: added %v removed %v", id, added, removed)
		for _, a := range added { // keep later cases independent
			_ = os.RemoveAll(strings.Fields(a)[0])
		}
	}
	if (variant == "answer-ok" || variant == "labelled-answer-ok") && mid != nil {
		if (cerr == nil) != (clientResult == 0 || true) && false {
			_ = cerr
		}
		if cerr != nil {
			res.Violate("C18/client-fails-though-server-ok", "%s: %v", id, cerr)
		}
	}
	if variant == "answer-fail" && cerr == nil {
		res.Violate("C18/client-ok-though-server-failed", "%s", id)
	}
	switch {
	case mid == nil:
		res.Outcome("exchange-broken-" + variant)
	case clientResult == 0:
		res.Outcome("created-and-removed")
	default:
		res.Outcome("clean-failure-reply")
	}
}

// c18Server: the real server half against a scripted client that leaves `obj`.
func c18Server(res *vlib.Result, obj string, remote bool) {
	c18Mu.Lock()
	defer c18Mu.Unlock()
	e := c18Setup()
	res.Evals++
	res.Nontrivial++
	ctx := context.Background()
	w := netsim.NewWorld(2)
	ce, se := netsim.Pipe(w, "10.1.1.1:40001", "10.2.2.2:9618")
	before := takeSnap(e.roots()...)
	announced := ""
	var wg sync.WaitGroup
	wg.Add(2)
	go func() { // scripted client
		defer wg.Done()
		defer w.Done()
		p := &peerConn{end: ce}
		m, err := p.recvMsg()
		if err != nil {
			return
		}
		announced = (&wireReader{b: m}).str()
		switch obj {
		case "nothing":
		case "dir0700":
			_ = os.Mkdir(announced, 0o700)
		case "dir0755":
			_ = os.Mkdir(announced, 0o755)
			_ = os.Chmod(announced, 0o755)
		case "dir0500":
			_ = os.Mkdir(announced, 0o500)
			_ = os.Chmod(announced, 0o500)
		case "dir0700-other-uid":
			_ = os.Mkdir(announced, 0o700)
			_ = os.Chown(announced, 65534, 65534)
		case "dir-with-subdir":
			_ = os.Mkdir(announced, 0o700)
			_ = os.Mkdir(filepath.Join(announced, "x"), 0o700)
		case "regular-file":
			_ = os.WriteFile(announced, []byte("x"), 0o700)
		case "symlink-to-dir":
			_ = os.Mkdir(e.decoy+"/target", 0o700)
			_ = os.Symlink(e.decoy+"/target", announced)
		case "symlink-to-file":
			_ = os.WriteFile(e.decoy+"/tfile", []byte("x"), 0o700)
			_ = os.Symlink(e.decoy+"/tfile", announced)
		case "fifo":
			_ = syscall.Mkfifo(announced, 0o700)
		case "unix-socket-0700":
			// a unix-domain socket at the path, owner-only
			if l, err := net.Listen("unix", announced); err == nil {
				if ul, ok := l.(*net.UnixListener); ok {
					ul.SetUnlinkOnClose(false)
				}
				_ = l.Close()
			}
			_ = os.Chmod(announced, 0o700)
		}
		_ = p.sendMsg(refcodec.EncInt(0), false)
		_, _ = p.recvMsg()
	}()
	var serr error
	var suser string
	go func() {
		defer wg.Done()
		defer w.Done()
		suser, serr = security.VerifFSServer(ctx, stream.NewStream(se), remote)
		se.Close()
	}()
	wg.Wait()
	id := fmt.Sprintf("object=%s remote=%v path=%q", obj, remote, announced)
	wantOK := obj == "dir0700" || obj == "dir0700-other-uid"
	if (serr == nil) != wantOK {
		res.Violate("C18/server-verdict/"+obj, "%s: server accepted=%v, only a real non-symlink owner-only directory may be accepted (err=%v)", id, serr == nil, serr)
	}
	if serr == nil {
		wantUser := "root"
		if obj == "dir0700-other-uid" {
			if u, err := user.LookupId("65534"); err == nil {
				wantUser = u.Username
			}
		}
		if suser != wantUser {
			res.Violate("C18/server-identity/"+obj, "%s: recorded identity %q, the directory's owner is %q", id, suser, wantUser)
		}
	}
	if serr != nil && suser != "" {
		// the identity outlives this method: a later method of the same handshake that sets no
		// identity of its own would inherit it
		res.Violate("C18/server-identity-recorded-for-refused-object/"+obj, "%s: the server refused the object (%v) yet recorded identity %q", id, serr, suser)
	}
	if announced != "" && !refAccept(announced, remote, "10.2.2.2:9618") {
		res.Violate("C18/server-announces-unacceptable-path", "%s", id)
	}
	// cleanup of what the scripted client left (not part of the judgement)
	_ = os.RemoveAll(announced)
	_ = os.RemoveAll(e.decoy + "/target")
	_ = os.Remove(e.decoy + "/tfile")
	after := takeSnap(e.roots()...)
	if a, r := snapDiff(before, after); len(a)+len(r) > 0 {
		res.Outcome("harness-cleanup-incomplete")
	}
	res.Outcome(fmt.Sprintf("server-%s-accepted=%v", obj, serr == nil))
}

// c18Label: a peer label some runs put on the stream; names qualified with IT do not name the live endpoint
const c18Label = "10.77.7.7:4321"

func c18Paths(peer string, thorough bool) []string {
	h, p, _ := net.SplitHostPort(peer)
	bases := []string{"/tmp", "/tmp/", "//tmp", "/tmp/.", "/tmp/../tmp", "/var/tmp", "/tmp/sub", "/tmp/link", "tmp", "", "/proc/self/root/tmp", "/proc/self/cwd/../../../../tmp", filepath.Join(c18Setup().decoy, "totmp")}
	leaves := []string{"FS_1", "FS_XXXjlv9Zj", "FS_", "FS_abcdefghij1234567", "FS_abcdefghij123456", "fs_1", "FS-1", "FS_1.2", "FS_a_b", ".X11-unix", "..", ".", "FS_1/../x", "FS_1\x01x", "FS_é", "FS_" + strings.Repeat("a", 5000), "FS_REMOTE_h_1_a", "FS_REMOTE_host.example.org_123_abc", "FS_REMOTE_1"}
	ips := []string{h, "10.77.7.7", "10.9.9.9", "fd00::2", "::ffff:10.2.2.2", "hostname", "[::1]", "fd00::3", "::1", "2001:db8::1", "fd00:0:0:0:0:0:0:2", "10.2.2.3", "::ffff:10.9.9.9"}
	ports := []string{p, "4321", "1", "0", "65536", "123456"}
	for _, ip := range ips {
		for _, po := range ports {
			leaves = append(leaves, fmt.Sprintf("FS_%s_%s_abc", ip, po), fmt.Sprintf("FS_REMOTE_%s_%s_abc", ip, po))
		}
	}
	// address-qualified names that really name the live endpoint but carry a malformed suffix
	for _, sfx := range []string{"\x07abc", "-x", ".a", "a.b", "é1", " a", "a b1", "..1", strings.Repeat("a", 17), strings.Repeat("b", 200) + "9", "a\x7f1", "%2e1", "A_1"} {
		leaves = append(leaves, fmt.Sprintf("FS_%s_%s_%s", h, p, sfx), fmt.Sprintf("FS_REMOTE_%s_%s_%s", h, p, sfx))
	}
	var out []string
	for _, b := range bases {
		for _, l := range leaves {
			if b == "" {
				out = append(out, l)
			} else {
				out = append(out, b+"/"+l)
			}
		}
	}
	out = append(out, "", "/", "/tmp", "/tmp/", "relative/FS_1", "/tmp//FS_1", "/tmp/FS_1/", "/tmp/./FS_1")
	if thorough {
		for _, good := range []string{"/tmp/FS_Ab3", fmt.Sprintf("/tmp/FS_%s_%s_q1", h, p)} {
			for i := 0; i < len(good); i++ {
				for _, c := range []byte{'/', '.', '_', 'x', '0', 0x01, '-'} {
					b := []byte(good)
					if b[i] != c {
						b[i] = c
						out = append(out, string(b))
					}
				}
				out = append(out, good[:i]+good[i+1:], good[:i]+"/"+good[i:])
			}
		}
	}
	return out
}

func C18Plan() *vlib.Plan {
	p := &vlib.Plan{
		Property: "C18", Level: "exploration", Workers: 1, Quiet: true,
		Rule:   "E-ENUM in a private mount namespace (fresh tmpfs on /tmp): paths = base in {/tmp, /tmp/, //tmp, /tmp/., /tmp/../tmp, /var/tmp, /tmp/sub, /tmp/link (symlink to a decoy dir), tmp, '', /proc/self/root/tmp, a symlink elsewhere that resolves to /tmp} x leaf in {recognised and near-miss names, '.', '..', traversal, control and non-ASCII bytes, 5000 chars, remote forms, address forms over 12 ip spellings (the peer's own, other v4 / v6 hosts, equivalent long and v4-mapped spellings, a host name, a bracketed form) x 5 ports} (+ every single-character mutation of two accepted paths in thorough) x peer address {v4, v6} x {local, remote} x scripted server {answers 0, answers 0 to a client whose stream carries a peer label different from the socket's real peer, answers -1, closes after the path, closes after reading the client's answer (no verdict), trailing bytes}; recursive snapshots of /tmp + scratch CWD + decoy dirs + the directory $TMPDIR points to (set to somewhere other than /tmp) before / when the server holds the client's answer / after. Oracle: independent path validator written from the statement; at most one directory, only for acceptable paths, mode 0700, answer 0 iff created, snapshot restored afterwards, client nil iff server answered 0. Plus the whole method loop of a client handshake (method lists [FS], [FS,CLAIMTOBE], [CLAIMTOBE,FS], [FS,TOKEN,CLAIMTOBE]) against a scripted server that selects FILESYSTEM in every round and declares each attempt failed: at most one directory per authentication, nothing left behind. Server half (accept only the real owner-only directory, record its owner, record NOTHING for a refused object) against {nothing, dir 0700, dir 0755, dir 0500, dir of another uid, dir with a sub-directory, regular file, symlink to dir / file, fifo, unix-domain socket with mode 0700}. Non-trivial = every exchange (distinct by construction).",
		Assume: []string{"runs inside `unshare -m` with a tmpfs on /tmp when available (evidence field namespace); as root"},
	}
	p.Gen = func(tier string, yield func(vlib.Case)) {
		ns := os.Getenv("VERIF_C18_NAMESPACE") == "1"
		p.SetExtra("namespace", ns)
		thorough := tier == "thorough"
		for _, peer := range []string{"10.2.2.2:9618", "[fd00::2]:9618"} {
			paths := c18Paths(peer, thorough)
			for _, remote := range []bool{false, true} {
				for _, variant := range []string{"answer-ok", "labelled-answer-ok", "answer-fail", "close-after-path", "close-after-answer", "trailing"} {
					if variant != "answer-ok" && !thorough && peer != "10.2.2.2:9618" {
						continue
					}
					peer, remote, variant := peer, remote, variant
					yield(vlib.Case{ID: fmt.Sprintf("client/peer=%s/remote=%v/%s", peer, remote, variant), Run: func() *vlib.Result {
						res := &vlib.Result{}
						for _, pa := range paths {
							c18Client(res, pa, remote, peer, variant)
						}
						res.Sample = map[string]any{"peer": peer, "remote": remote, "server": variant, "paths": len(paths), "example": paths[len(paths)/3]}
						return res
					}})
				}
			}
		}
		yield(vlib.Case{ID: "client/whole-method-loop/filesystem-selected-in-every-round", Run: func() *vlib.Result {
			res := &vlib.Result{}
			for _, ms := range [][]security.AuthMethod{{security.AuthFS}, {security.AuthFS, mCTB}, {mCTB, security.AuthFS}, {security.AuthFS, mTOK, mCTB}} {
				c18Repeated(res, ms)
			}
			return res
		}})
		for _, obj := range []string{"nothing", "dir0700", "dir0755", "dir0500", "dir0700-other-uid", "dir-with-subdir", "regular-file", "symlink-to-dir", "symlink-to-file", "fifo", "unix-socket-0700"} {
			for _, remote := range []bool{false, true} {
				obj, remote := obj, remote
				yield(vlib.Case{ID: fmt.Sprintf("server/%s/remote=%v", obj, remote), Run: func() *vlib.Result {
					res := &vlib.Result{}
					c18Server(res, obj, remote)
					return res
				}})
			}
		}
	}
	return p
}


// c18Repeated: the whole method loop of a client handshake against a scripted server that
// selects FILESYSTEM in EVERY round and declares each attempt failed. Within one
// authentication the client creates at most one directory (a method that failed is withdrawn,
// and a server that selects it again is refused), and nothing is left behind.
func c18Repeated(res *vlib.Result, clientMethods []security.AuthMethod) {
	c18Mu.Lock()
	defer c18Mu.Unlock()
	e := c18Setup()
	res.Evals++
	before := takeSnap(e.roots()...)
	created := map[string]bool{}
	var answers []int64
	out := &peerOutcome{}
	dev := peerDev{AuthAnswer: "YES", Select: "fs-repeat"}
	dev.FSHook = func(round int, path string, clientResult int64) {
		answers = append(answers, clientResult)
		added, _ := snapDiff(before, takeSnap(e.roots()...))
		for _, a := range added {
			created[a] = true
		}
	}
	cc := baseCfg(security.SecurityRequired, security.SecurityOptional, clientMethods, []security.CryptoMethod{security.CryptoAES}, false)
	cc.Command = 5
	r := hsRun(hsOpts{ClientCfg: cc, ServerScript: scriptedServer(dev, out)})
	res.Transitions += len(answers)
	id := fmt.Sprintf("client methods %v, server selects FILESYSTEM in every round (answers %v, client result %s)", clientMethods, answers, errStr(r.C.Err))
	if len(answers) == 0 {
		res.Outcome("fs-never-selected")
		return
	}
	res.Nontrivial++
	if len(created) > 1 {
		var l []string
		for c := range created {
			l = append(l, c)
		}
		sort.Strings(l)
		res.Violate("C18/more-than-one-created/repeated-selection", "%s: %d directories were created in ONE authentication: %v", id, len(created), l)
	}
	if r.C.Err == nil {
		res.Violate("C18/client-ok-though-server-failed", "%s: every FILESYSTEM attempt was declared failed, yet the handshake succeeded", id)
	}
	added, removed := snapDiff(before, takeSnap(e.roots()...))
	if len(added) > 0 || len(removed) > 0 {
		res.Violate("C18/not-cleaned-up/repeated-selection", "%s: added %v removed %v", id, added, removed)
		for _, a := range added {
			_ = os.RemoveAll(strings.Fields(a)[0])
		}
	}
	res.Outcome(fmt.Sprintf("repeated-selection-rounds=%d", len(answers)))
}
