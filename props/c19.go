package props

// C19 — cancellation and deadlines always unblock stream operations.
// E-FAULT over I/O steps: a dry run counts the connection operations of the
// endpoint under test; then for every k the k-th read or write never completes
// (the in-memory conn blocks it until Close) and the context is cancelled, or
// its deadline passes, exactly when the stall has been entered; plus
// already-cancelled, cancelled-after-completion and never-cancellable runs.

import (
	"context"
	"crypto/ecdsa"
	"crypto/elliptic"
	"crypto/rand"
	"crypto/x509"
	"crypto/x509/pkix"
	"encoding/pem"
	"errors"
	"fmt"
	"math/big"
	"os"
	"path/filepath"
	"sync"
	"time"

	"github.com/bbockelm/cedar/message"
	"github.com/bbockelm/cedar/security"
	"github.com/bbockelm/cedar/stream"

	"verif/netsim"
	"verif/vlib"
)

// manualCtx is a context whose deadline "passes" when the harness says so.
type manualCtx struct {
	done chan struct{}
	mu   sync.Mutex
	err  error
}

func newManualCtx() *manualCtx                   { return &manualCtx{done: make(chan struct{})} }
func (c *manualCtx) Deadline() (time.Time, bool) { return time.Now().Add(time.Hour), true }
func (c *manualCtx) Done() <-chan struct{}       { return c.done }
func (c *manualCtx) Err() error {
	c.mu.Lock()
	defer c.mu.Unlock()
	return c.err
}
func (c *manualCtx) Value(any) any { return nil }
func (c *manualCtx) fire() {
	c.mu.Lock()
	if c.err == nil {
		c.err = context.DeadlineExceeded
		close(c.done)
	}
	c.mu.Unlock()
}

type c19Shape struct {
	name    string
	role    string // which endpoint is under test: client / server / plain-send / plain-recv / typed
	auth    security.SecurityLevel
	methods []security.AuthMethod
	enc     security.SecurityLevel
	resumed bool
	// the untampered exchange of this shape is allowed to fail (unused since /repo
	// fix 42360c9 made cedar's SSL client and server interoperate); the stall/cancel
	// oracle then applies to every I/O step the shape does reach
	mayFailHonestly bool
	trickle         int // > 0: the endpoint under test receives at most that many bytes per read
}

var c19Shapes = []c19Shape{
	{"plain-send-recv", "plain", "", nil, "", false, false, 0},
	{"plain-encrypted", "plain-enc", "", nil, "", false, false, 0},
	{"typed-exchange", "typed", "", nil, "", false, false, 0},
	{"plain-after-SetConnection", "plain-swapped-conn", "", nil, "", false, false, 0},
	{"hs-noauth-enc/client", "client", security.SecurityNever, []security.AuthMethod{mCTB}, security.SecurityRequired, false, false, 0},
	{"hs-noauth-enc/server", "server", security.SecurityNever, []security.AuthMethod{mCTB}, security.SecurityRequired, false, false, 0},
	{"hs-claimtobe/client", "client", security.SecurityRequired, []security.AuthMethod{mCTB}, security.SecurityRequired, false, false, 0},
	{"hs-claimtobe/server", "server", security.SecurityRequired, []security.AuthMethod{mCTB}, security.SecurityRequired, false, false, 0},
	{"hs-token/client", "client", security.SecurityRequired, []security.AuthMethod{mTOK}, security.SecurityRequired, false, false, 0},
	{"hs-token/server", "server", security.SecurityRequired, []security.AuthMethod{mTOK}, security.SecurityRequired, false, false, 0},
	{"hs-token-plaintext/client", "client", security.SecurityRequired, []security.AuthMethod{mTOK}, security.SecurityNever, false, false, 0},
	{"hs-resumed/client", "client", security.SecurityRequired, []security.AuthMethod{mCTB}, security.SecurityRequired, true, false, 0},
	{"hs-resumed/server", "server", security.SecurityRequired, []security.AuthMethod{mCTB}, security.SecurityRequired, true, false, 0},
	{"hs-denied/server", "server-denied", security.SecurityNever, []security.AuthMethod{mCTB}, security.SecurityRequired, false, true, 0},
	{"hs-ssl/client", "client", security.SecurityRequired, []security.AuthMethod{security.AuthSSL}, security.SecurityNever, false, false, 0},
	{"hs-ssl/server", "server", security.SecurityRequired, []security.AuthMethod{security.AuthSSL}, security.SecurityNever, false, false, 0},
	{"hs-ssl-enc/client", "client", security.SecurityRequired, []security.AuthMethod{security.AuthSSL}, security.SecurityRequired, false, false, 0},
}

// c19AfterBase + k as the stall argument means "fire the cancellation right after conn op k-1
// completed" instead of "stall conn op k-1".
const c19AfterBase = 1 << 20

type c19Out struct {
	errAfter error // plain shapes: error of one more send and one more receive attempted with the ended context
	err      error
	returned bool
	closed   bool
	ops      int
	stalled  bool
	ctxErr   error
}

// c19Plain runs the plain / typed shapes: endpoint under test A talks to an echo peer.
func c19Plain(sh c19Shape, stall int, ctx context.Context, onStall func()) *c19Out {
	out := &c19Out{}
	w := netsim.NewWorld(2)
	a, b := netsim.Pipe(w, hsClientAddr, hsServerAddr)
	a.ReadChunk = sh.trickle
	stalledCh := make(chan struct{})
	afterOp := 0
	if stall >= c19AfterBase {
		// not a stall: onStall (the cancellation) runs right after conn op `afterOp-1` has completed,
		// i.e. between two I/O steps - the next step starts with a context that is already over
		afterOp, stall = stall-c19AfterBase, 0
		a.AfterOp, a.OnAfterOp = afterOp-1, func() { out.stalled = true; onStall() }
	}
	switch {
	case stall == -1:
		a.StallAt = 1 << 30
	case stall > 0:
		a.StallAt = stall - 1
		a.Stalled = stalledCh
	}
	bg := context.Background()
	sa, sb := stream.NewStream(a), stream.NewStream(b)
	if sh.role == "plain-swapped-conn" {
		// legal API use: the stream is created around one connection and then given
		// another one (SetConnection) before any traffic; cancellation must act on the
		// connection the stream is using now
		d1, d2 := netsim.Pipe(netsim.NewWorld(2), "10.7.7.7:1", "10.7.7.8:2")
		_ = d2
		sa = stream.NewStream(d1)
		sa.SetConnection(a)
	}
	if sh.role == "plain-enc" {
		_ = sa.SetSymmetricKey(testKey)
		_ = sb.SetSymmetricKey(testKey)
	}
	var wg sync.WaitGroup
	wg.Add(2)
	go func() { // echo peer
		defer wg.Done()
		defer w.Done()
		defer b.Close()
		for i := 0; i < 3; i++ {
			m, err := sb.ReceiveCompleteMessage(bg)
			if err != nil {
				return
			}
			if err := sb.SendMessage(bg, m); err != nil {
				return
			}
		}
	}()
	go func() {
		defer wg.Done()
		defer w.Done()
		defer func() { out.returned = true }()
		defer func() {
			// an application that tries once more with the same (ended) context gets the context's
			// error again - the connection being closed already does not change what went wrong
			if out.err != nil && ctx.Err() != nil {
				if e := sa.SendMessage(ctx, []byte("once-more")); e != nil {
					out.errAfter = e
				}
				if _, e := sa.ReceiveCompleteMessage(ctx); e != nil && (out.errAfter == nil || errors.Is(out.errAfter, ctx.Err())) {
					out.errAfter = e
				}
			}
		}()
		for i := 0; i < 3; i++ {
			if sh.role == "typed" {
				m := message.NewMessageForStream(sa)
				if out.err = m.PutInt(ctx, 42+i); out.err != nil {
					return
				}
				if out.err = m.PutString(ctx, "typed-payload"); out.err != nil {
					return
				}
				if out.err = m.FinishMessage(ctx); out.err != nil {
					return
				}
				r := message.NewMessageFromStream(sa)
				if i == 1 {
					// the second reply is drained with the read-everything-that-is-left entry point
					var rest []byte
					if rest, out.err = r.GetRemainingBytes(ctx); out.err != nil {
						return
					}
					if len(rest) != 8+len("typed-payload")+1 {
						// "success" with only part of the message: the operation has ended without an error
						// although it did not get what it was reading (judged as no-error when the context ended)
						return
					}
					continue
				}
				if _, out.err = r.GetInt(ctx); out.err != nil {
					return
				}
				if _, out.err = r.GetString(ctx); out.err != nil {
					return
				}
			} else {
				if out.err = sa.SendMessage(ctx, payload(i, 100+i*5000)); out.err != nil {
					return
				}
				if _, out.err = sa.ReceiveCompleteMessage(ctx); out.err != nil {
					return
				}
			}
		}
	}()
	if stall > 0 {
		go func() {
			<-stalledCh
			out.stalled = true
			onStall()
		}()
	}
	done := make(chan struct{})
	go func() { wg.Wait(); close(done) }()
	select {
	case <-done:
	case <-time.After(10 * time.Second):
		a.Close()
		b.Close()
		<-done
		out.returned = false
	}
	out.closed = a.IsClosed() || (stall > 0 || afterOp > 0) && a.ClosedSoon(3*time.Second)
	out.ops = a.Ops
	return out
}

// c19Handshake runs a handshake shape with the endpoint under test E.
func c19Handshake(sh c19Shape, stall int, ctx context.Context, onStall func()) *c19Out {
	out := &c19Out{}
	mk := func() (*security.SecurityConfig, *security.SecurityConfig) {
		cc := baseCfg(sh.auth, sh.enc, sh.methods, []security.CryptoMethod{security.CryptoAES}, false)
		sc := baseCfg(sh.auth, sh.enc, sh.methods, []security.CryptoMethod{security.CryptoAES}, true)
		cc.Command = 5
		if len(sh.methods) == 1 && sh.methods[0] == security.AuthSSL {
			ca, cert, key := c19Certs()
			cc.CAFile, cc.ServerName = ca, "localhost"
			sc.CAFile, sc.CertFile, sc.KeyFile = ca, cert, key
		}
		return cc, sc
	}
	cc, sc := mk()
	if sh.role == "server-denied" {
		// the negotiation cannot succeed (the server REQUIRES encryption, the client offers no
		// cipher): the server's last act is to write its DENIED reply
		cc.CryptoMethods, cc.Encryption = nil, security.SecurityNever
	}
	if sh.resumed {
		r0 := hsRun(hsOpts{ClientCfg: cc, ServerCfg: sc, App: true})
		if r0.C.Err != nil || r0.S.Err != nil {
			out.err = fmt.Errorf("harness: cannot establish: %v/%v", r0.C.Err, r0.S.Err)
			return out
		}
		defer security.GetSessionCache().Invalidate(r0.S.Neg.SessionId)
		c2 := *cc
		cc = &c2
		_, sc = mk()
	}
	o := hsOpts{ClientCfg: cc, ServerCfg: sc, App: true, Stalled: make(chan struct{}), Watchdog: 10 * time.Second}
	afterOp := 0
	if stall >= c19AfterBase {
		afterOp, stall = stall-c19AfterBase, -1
		o.OnAfterOp = func() { out.stalled = true; onStall() }
	}
	if sh.role == "client" {
		o.ClientCtx, o.ClientStall, o.ClientReadChunk, o.ClientAfterOp = ctx, stall, sh.trickle, afterOp
	} else {
		o.ServerCtx, o.ServerStall, o.ServerReadChunk, o.ServerAfterOp = ctx, stall, sh.trickle, afterOp
	}
	if stall > 0 {
		go func() {
			<-o.Stalled
			out.stalled = true
			onStall()
		}()
	}
	r := hsRun(o)
	if r.S.Neg != nil {
		security.GetSessionCache().Invalidate(r.S.Neg.SessionId)
	}
	E := &r.C
	if sh.role == "server" || sh.role == "server-denied" {
		E = &r.S
	}
	out.err = E.Err
	if out.err == nil {
		out.err = E.AppErr
	}
	out.returned = !r.Timeout
	out.closed = E.ClosedByEndpoint
	out.ops = E.End.Ops
	if sh.resumed && out.err == nil && !E.Resumed {
		out.err = fmt.Errorf("harness: expected a resumption")
	}
	return out
}

var c19CertOnce sync.Once
var c19CertFiles [3]string

// c19Certs writes a throw-away CA and a "localhost" server certificate under
// /verif/.build (once per process).
func c19Certs() (ca, cert, key string) {
	c19CertOnce.Do(func() {
		dir := filepath.Join(verifDir(), ".build", fmt.Sprintf("c19-certs-%d", os.Getpid()))
		_ = os.MkdirAll(dir, 0o700)
		caKey, _ := ecdsa.GenerateKey(elliptic.P256(), rand.Reader)
		caT := &x509.Certificate{SerialNumber: big.NewInt(1), Subject: pkix.Name{CommonName: "verif CA"}, NotBefore: time.Now().Add(-time.Hour), NotAfter: time.Now().Add(48 * time.Hour), IsCA: true, BasicConstraintsValid: true, KeyUsage: x509.KeyUsageCertSign | x509.KeyUsageDigitalSignature}
		caDER, _ := x509.CreateCertificate(rand.Reader, caT, caT, &caKey.PublicKey, caKey)
		caCert, _ := x509.ParseCertificate(caDER)
		sKey, _ := ecdsa.GenerateKey(elliptic.P256(), rand.Reader)
		sT := &x509.Certificate{SerialNumber: big.NewInt(2), Subject: pkix.Name{CommonName: "localhost"}, DNSNames: []string{"localhost"}, NotBefore: time.Now().Add(-time.Hour), NotAfter: time.Now().Add(48 * time.Hour), KeyUsage: x509.KeyUsageDigitalSignature, ExtKeyUsage: []x509.ExtKeyUsage{x509.ExtKeyUsageServerAuth}}
		sDER, _ := x509.CreateCertificate(rand.Reader, sT, caCert, &sKey.PublicKey, caKey)
		kDER, _ := x509.MarshalECPrivateKey(sKey)
		w := func(name, typ string, der []byte) string {
			p := filepath.Join(dir, name)
			_ = os.WriteFile(p, pem.EncodeToMemory(&pem.Block{Type: typ, Bytes: der}), 0o600)
			return p
		}
		c19CertFiles = [3]string{w("ca.pem", "CERTIFICATE", caDER), w("cert.pem", "CERTIFICATE", sDER), w("key.pem", "EC PRIVATE KEY", kDER)}
	})
	return c19CertFiles[0], c19CertFiles[1], c19CertFiles[2]
}

func c19Exec(sh c19Shape, stall int, ctx context.Context, onStall func()) *c19Out {
	if sh.role == "client" || sh.role == "server" || sh.role == "server-denied" {
		return c19Handshake(sh, stall, ctx, onStall)
	}
	return c19Plain(sh, stall, ctx, onStall)
}

func C19Plan() *vlib.Plan {
	p := &vlib.Plan{
		Property: "C19", Level: "fault_enumeration",
		Rule:   "E-FAULT over I/O steps: for each shape (plain send/receive, the same on an encrypted stream, typed exchange, plain exchange on a stream whose connection was replaced through SetConnection; client and server side of handshakes {no authentication + encryption, CLAIMTOBE, TOKEN, TOKEN without encryption, resumed session, a negotiation the server must DENY (stalls include the write of that reply), SSL (TLS tunnelled through CEDAR messages, throw-away CA)}) a dry run counts the endpoint's connection operations N; for every k < N the k-th read/write blocks forever and, once the stall is entered, (a) the context is cancelled, (b) a harness-controlled deadline context expires (thorough: also a real 50 ms timeout); plus already-cancelled before the call, cancelled after completion, a never-cancellable context, and a trickling link (the endpoint's reads return at most 1 / 3 / 7 bytes) under Background, TODO and cancellable-but-never-cancelled contexts. Oracle: the call returns (10 s watchdog, the only wall-clock judgement), with an error (errors.Is(err, ctx.Err()) for plain stream operations), the connection was closed; never-cancelled runs equal the baseline. Non-trivial = the stall point was reached.",
		Assume: []string{"one case uses real loopback TCP and waits (sleeps) until a 0.4 s / 1.5 s connect deadline has passed - nothing is judged by elapsed time", "free-running (context.AfterFunc callbacks run on standard-library goroutines); FS/KERBEROS/SCITOKENS shapes excluded (need a mount namespace / a KDC / an issuer)"},
	}
	p.Gen = func(tier string, yield func(vlib.Case)) {
		c19BetweenCases(yield)
		counts := map[string]int{}
		for _, sh := range c19Shapes {
			sh := sh
			base := c19Exec(sh, -1, context.Background(), nil)
			if (base.err != nil && !sh.mayFailHonestly) || !base.returned {
				yield(vlib.Case{ID: "baseline/" + sh.name, Run: func() *vlib.Result {
					r := &vlib.Result{}
					r.Violate("C19/baseline-fails/"+sh.name, "with a never-cancellable context the shape fails: %v (returned=%v)", base.err, base.returned)
					return r
				}})
				continue
			}
			N := base.ops
			counts[sh.name] = N
			plain := sh.role != "client" && sh.role != "server" && sh.role != "server-denied"
			judge := func(res *vlib.Result, label string, out *c19Out, ctxErr error, mustFail bool) {
				res.Evals++
				if !out.returned {
					res.Violate(fmt.Sprintf("C19/hang/%s/%s", sh.name, label), "shape %s %s: the operation did not return within 10 s", sh.name, label)
					return
				}
				if !mustFail {
					if out.err != nil && !sh.mayFailHonestly {
						res.Violate(fmt.Sprintf("C19/spurious-failure/%s/%s", sh.name, label), "shape %s %s: %v", sh.name, label, out.err)
					}
					res.Outcome("completed-as-baseline")
					return
				}
				if out.err == nil {
					res.Violate(fmt.Sprintf("C19/no-error/%s/%s", sh.name, label), "shape %s %s: returned success although the peer stalled and the context ended", sh.name, label)
					return
				}
				if plain && !errors.Is(out.err, ctxErr) {
					res.Violate(fmt.Sprintf("C19/wrong-error/%s/%s", sh.name, label), "shape %s %s: error %q is not the context's error %v", sh.name, label, out.err, ctxErr)
				}
				if plain && out.errAfter != nil && !errors.Is(out.errAfter, ctxErr) {
					res.Violate(fmt.Sprintf("C19/wrong-error/%s/%s/next-operation", sh.name, label), "shape %s %s: a further operation with the ended context returned %q, not the context's error %v", sh.name, label, out.errAfter, ctxErr)
				}
				if !out.closed {
					res.Violate(fmt.Sprintf("C19/conn-left-open/%s/%s", sh.name, label), "shape %s %s: the connection was not closed after cancellation (err %v)", sh.name, label, out.err)
				}
				res.Outcome("unblocked-with-error")
			}
			for k := 0; k < N; k++ {
				k := k
				yield(vlib.Case{ID: fmt.Sprintf("%s/stall@%d", sh.name, k), Run: func() *vlib.Result {
					res := &vlib.Result{}
					// (a) explicit cancel while stalled
					ctx, cancel := context.WithCancel(context.Background())
					out := c19Exec(sh, k+1, ctx, cancel)
					cancel()
					if out.stalled {
						res.Nontrivial++
					}
					judge(res, "cancel-while-stalled", out, context.Canceled, true)
					// (b) deadline passes while stalled (harness-controlled)
					mc := newManualCtx()
					out = c19Exec(sh, k+1, mc, mc.fire)
					if out.stalled {
						res.Nontrivial++
					}
					judge(res, "deadline-while-stalled", out, context.DeadlineExceeded, true)
					if tier == "thorough" {
						tctx, tcancel := context.WithTimeout(context.Background(), 50*time.Millisecond)
						out = c19Exec(sh, k+1, tctx, func() {})
						tcancel()
						judge(res, "real-timeout-while-stalled", out, context.DeadlineExceeded, true)
					}
					res.Sample = fmt.Sprintf("%s stall at conn op %d of %d", sh.name, k, N)
					return res
				}})
			}
			// the context ends BETWEEN two I/O steps: right after conn op k has completed (k not the last)
			for k := 0; k+1 < N; k++ {
				k := k
				yield(vlib.Case{ID: fmt.Sprintf("%s/ctx-ends-after-op@%d", sh.name, k), Run: func() *vlib.Result {
					res := &vlib.Result{}
					ctx, cancel := context.WithCancel(context.Background())
					out := c19Exec(sh, c19AfterBase+k+1, ctx, cancel)
					cancel()
					if out.stalled {
						res.Nontrivial++
						judge(res, "cancel-between-steps", out, context.Canceled, true)
					} else {
						res.Outcome("between-steps-point-not-reached")
					}
					mc := newManualCtx()
					out = c19Exec(sh, c19AfterBase+k+1, mc, mc.fire)
					if out.stalled {
						res.Nontrivial++
						judge(res, "deadline-between-steps", out, context.DeadlineExceeded, true)
					} else {
						res.Outcome("between-steps-point-not-reached")
					}
					res.Sample = fmt.Sprintf("%s context ends after conn op %d of %d", sh.name, k, N)
					return res
				}})
			}
			yield(vlib.Case{ID: sh.name + "/pre-cancelled", Run: func() *vlib.Result {
				res := &vlib.Result{}
				ctx, cancel := context.WithCancel(context.Background())
				cancel()
				out := c19Exec(sh, -1, ctx, nil)
				res.Nontrivial++
				res.Evals++
				if !out.returned {
					res.Violate("C19/hang/"+sh.name+"/pre-cancelled", "did not return")
				} else if out.err == nil {
					res.Violate("C19/no-error/"+sh.name+"/pre-cancelled", "shape %s with an already-cancelled context returned success", sh.name)
				} else if plain && !errors.Is(out.err, context.Canceled) {
					res.Violate("C19/wrong-error/"+sh.name+"/pre-cancelled", "%v", out.err)
				}
				res.Outcome("pre-cancelled-refused")
				return res
			}})
			yield(vlib.Case{ID: sh.name + "/trickling-link", Run: func() *vlib.Result {
				// the bytes arrive a few at a time (every read is short); a context that
				// can never be cancelled - and one that could but is not - adds no failure
				res := &vlib.Result{}
				for _, chunk := range []int{1, 3, 7} {
					sh := sh
					sh.trickle = chunk
					for _, kind := range []string{"background", "todo", "cancellable-not-cancelled"} {
						var ctx context.Context
						cancel := func() {}
						switch kind {
						case "background":
							ctx = context.Background()
						case "todo":
							ctx = context.TODO()
						default:
							ctx, cancel = context.WithCancel(context.Background())
						}
						out := c19Exec(sh, -1, ctx, nil)
						cancel()
						res.Evals++
						res.Nontrivial++
						if !out.returned {
							res.Violate(fmt.Sprintf("C19/hang/%s/trickle-%s", sh.name, kind), "shape %s, %d bytes per read, %s context: did not return", sh.name, chunk, kind)
						} else if out.err != nil && !sh.mayFailHonestly {
							res.Violate(fmt.Sprintf("C19/spurious-failure/%s/trickle-%s", sh.name, kind), "shape %s, %d bytes per read, %s context: %v", sh.name, chunk, kind, out.err)
						}
						res.Outcome("trickle-completed")
					}
				}
				return res
			}})
			yield(vlib.Case{ID: sh.name + "/cancel-after-completion", Run: func() *vlib.Result {
				res := &vlib.Result{}
				ctx, cancel := context.WithCancel(context.Background())
				out := c19Exec(sh, -1, ctx, nil)
				cancel()
				res.Nontrivial++
				judge(res, "cancellable-but-never-cancelled", out, nil, false)
				out = c19Exec(sh, -1, context.Background(), nil)
				judge(res, "background", out, nil, false)
				if out.ops != N {
					res.Outcome("op-count-varies")
				}
				return res
			}})
		}
		p.SetExtra("conn_ops_per_shape", counts)
		_ = netsim.ErrStuck
	}
	return p
}
