package props

// C15 — exported crypto state resumes the session exactly; export only when
// clean. E-BFS: all histories <= D over 12 operations (messages of 1 / 5000
// bytes each way, begin/finish a partial send, begin/finish a partial receive,
// hand-off of either end) on two real streams; ExportCryptoState is attempted
// on both ends in every state and compared with a reference model of
// "established and clean"; the wire is watched by the reference decryptor (nonce
// continuity across hand-offs); every history ends with traffic both ways.

import (
	"strings"
	"bytes"
	"context"
	"fmt"

	"github.com/bbockelm/cedar/stream"

	"verif/netsim"
	"verif/refcodec"
	"verif/vlib"
)

var c15Ops = []string{"AB1", "AB5000", "BA1", "BA5000", "A-psend-begin", "A-psend-finish", "A-precv-begin", "A-precv-finish", "handoff-A", "handoff-B", "BA-queue", "A-recv-queued"}

type c15End struct {
	s         *stream.Stream
	conn      *netsim.Buf
	dir       *refcodec.Dir // reference view of what this end sends
	sentProt  int
	recvProt  int
	pSend     bool
	pRecv     bool
	pRecvHalf bool // the partially consumed message is one whose second frame has not arrived yet
	handoffs  int
}

func (e *c15End) modelClean() bool {
	return e.sentProt >= 1 && e.recvProt >= 1 && !e.pSend && !e.pRecv
}

type c15World struct {
	A, B *c15End
	res  *vlib.Result
	id   string
	step int
	held []byte // second frame of a message whose first frame A already consumed
	// a complete further message of B that is already on A's connection (in flight in the
	// transport) but not yet read by A: a hand-off of A must not lose or damage it
	queued []byte
	psend  []byte // content of the half-sent message of A
}

func (w *c15World) fail(key, f string, a ...any) bool {
	w.res.Violate("C15/"+key, "history %s step %d: "+f, append([]any{w.id, w.step}, a...)...)
	return false
}

// xfer moves everything `from` wrote to `to`'s read queue, checking each
// protected frame with the reference decryptor of that direction.
func (w *c15World) xfer(from, to *c15End) bool {
	wire := from.conn.W
	from.conn.W = nil
	frames, rest := refcodec.ParseFrames(wire)
	if len(rest) != 0 {
		return w.fail("wire-garbage", "stray bytes on the wire")
	}
	for _, f := range frames {
		if _, err := from.dir.Open(f); err != nil {
			return w.fail(fmt.Sprintf("ref-cannot-open/after-handoffs=%d", min(from.handoffs, 2)), "reference decryptor cannot open a frame sent after %d hand-off(s) of the sender (nonce/counter continuity broken): %v", from.handoffs, err)
		}
		from.sentProt++
		to.recvProt++
	}
	to.conn.R = append(to.conn.R, wire...)
	return true
}

func (w *c15World) send(from, to *c15End, n int) bool {
	ctx := context.Background()
	msg := payload(w.step+n, n)
	var err error
	if n > 4096 {
		if err = from.s.SendPartialMessage(ctx, msg[:4096]); err == nil {
			err = from.s.SendMessage(ctx, msg[4096:])
		}
	} else {
		err = from.s.SendMessage(ctx, msg)
	}
	if err != nil {
		return w.fail("send-error", "send %d bytes after %d hand-off(s): %v", n, from.handoffs, err)
	}
	if !w.xfer(from, to) {
		return false
	}
	got, err := to.s.ReceiveCompleteMessage(ctx)
	if err != nil {
		return w.fail(fmt.Sprintf("auth-failure/handoffs=%d+%d", min(from.handoffs, 2), min(to.handoffs, 2)), "peer failed to receive a %d-byte message (sender hand-offs %d, receiver hand-offs %d): %v", n, from.handoffs, to.handoffs, err)
	}
	if !bytes.Equal(got, msg) {
		return w.fail("data-mismatch", "message altered across a hand-off")
	}
	return true
}

// probeExport attempts an export on both ends and compares with the model.
func (w *c15World) probeExport() bool {
	for name, e := range map[string]*c15End{"A": w.A, "B": w.B} {
		_, err := e.s.ExportCryptoState()
		if err == nil && !e.modelClean() {
			why := "not established in both directions"
			if e.pSend {
				why = "partially sent message"
			} else if e.pRecv {
				why = "partially consumed message"
			}
			return w.fail("export-when-not-clean/"+why, "ExportCryptoState succeeded on %s although the stream has a %s (sent=%d recv=%d)", name, why, e.sentProt, e.recvProt)
		}
		if err != nil && e.modelClean() {
			// established in both directions, nothing half-sent, nothing half-read: this is the
			// boundary at which the property says a hand-off works
			return w.fail("export-refused-at-clean-boundary", "ExportCryptoState on %s refused at a message boundary (sent=%d recv=%d, %d earlier hand-offs): %v", name, e.sentProt, e.recvProt, e.handoffs, err)
		}
	}
	return true
}

func (w *c15World) handoff(e *c15End, name string) bool {
	blob, err := e.s.ExportCryptoState()
	if err != nil {
		if e.modelClean() {
			return w.fail("export-refused-at-clean-boundary", "hand-off of %s refused at a message boundary: %v", name, err)
		}
		return true
	}
	if !e.modelClean() {
		return w.fail("export-when-not-clean/handoff", "export succeeded on %s in a non-clean state", name)
	}
	nc := &netsim.Buf{R: e.conn.R, W: nil}
	ns, err := stream.NewStreamWithCryptoState(nc, blob)
	if err != nil {
		return w.fail("import-rejects-valid-blob", "%v", err)
	}
	if !ns.IsEncrypted() {
		return w.fail("import-not-encrypted", "imported stream is not encrypted")
	}
	// the receiver of a hand-off wipes (or reuses) the buffer the blob arrived in;
	// the imported stream must not depend on it any more
	for i := range blob {
		blob[i] = 0xA5
	}
	e.s, e.conn = ns, nc
	e.handoffs++
	return true
}

func c15Setup(id string, res *vlib.Result) *c15World {
	ctx := context.Background()
	A := &c15End{conn: &netsim.Buf{}}
	B := &c15End{conn: &netsim.Buf{}}
	A.s, B.s = stream.NewStream(A.conn), stream.NewStream(B.conn)
	var da refcodec.Digest
	_ = A.s.SendMessage(ctx, []byte("client-hello"))
	da.Add(A.conn.W)
	B.conn.R, A.conn.W = A.conn.W, nil
	_, _ = B.s.ReceiveCompleteMessage(ctx)
	if strings.HasPrefix(id, "rekeyed") {
		// both ends were keyed once before (another key) and then re-keyed: a legal history of
		// a stream; the exported state must carry the key in use NOW
		other := append([]byte(nil), testKey...)
		other[5] ^= 0x5a
		_ = A.s.SetSymmetricKey(other)
		_ = B.s.SetSymmetricKey(other)
	}
	_ = A.s.SetSymmetricKey(testKey)
	_ = B.s.SetSymmetricKey(testKey)
	A.dir, _ = refcodec.NewDir(testKey, da.Sum(), [32]byte{})
	B.dir, _ = refcodec.NewDir(testKey, [32]byte{}, da.Sum())
	return &c15World{A: A, B: B, res: res, id: id}
}

func (w *c15World) stateKey() string {
	f := func(e *c15End) string {
		return fmt.Sprintf("s%d r%d ps%v pr%v h%d", min(e.sentProt, 3), min(e.recvProt, 3), e.pSend, e.pRecv, min(e.handoffs, 2))
	}
	return f(w.A) + " | " + f(w.B) + fmt.Sprintf(" q%v", w.queued != nil)
}

// apply returns (enabled, ok).
func (w *c15World) apply(op string) (bool, bool) {
	ctx := context.Background()
	A, B := w.A, w.B
	switch op {
	case "AB1", "AB5000", "BA1", "BA5000":
		from, to := A, B
		if op[0] == 'B' {
			from, to = B, A
		}
		if from.pSend || to.pRecv || (to == A && w.queued != nil) {
			return false, true
		}
		n := 1
		if op[2:] == "5000" {
			n = 5000
		}
		return true, w.send(from, to, n)
	case "A-psend-begin":
		if A.pSend {
			return false, true
		}
		A.s.StartMessage()
		w.psend = []byte("partial-10")
		if w.step%2 == 1 {
			// variant: more than the 4 KiB flush threshold, so a first (not final) frame of the
			// message has already gone out when the export is attempted
			w.psend = payload(w.step+40, 5000)
		}
		if err := A.s.WriteMessage(ctx, w.psend); err != nil {
			return true, w.fail("send-error", "WriteMessage: %v", err)
		}
		A.pSend = true
		return true, true
	case "A-psend-finish":
		if !A.pSend || B.pRecv {
			return false, true
		}
		if err := A.s.EndMessage(ctx); err != nil {
			return true, w.fail("send-error", "EndMessage: %v", err)
		}
		A.s.StartMessage()
		A.pSend = false
		if !w.xfer(A, B) {
			return true, false
		}
		got, err := B.s.ReceiveCompleteMessage(ctx)
		if err != nil || !bytes.Equal(got, w.psend) {
			return true, w.fail("auth-failure/partial-send", "peer could not read the finished partial message: %v", err)
		}
		return true, true
	case "BA-queue":
		// B pipelines two messages; A reads only the first: the second stays on the connection
		if w.queued != nil || B.pSend || A.pRecv {
			return false, true
		}
		m1, m2 := payload(w.step+11, 9), payload(w.step+12, 5000)
		for _, m := range [][]byte{m1, m2[:4096]} {
			var err error
			if len(m) == 4096 {
				if err = B.s.SendPartialMessage(ctx, m); err == nil {
					err = B.s.SendMessage(ctx, m2[4096:])
				}
			} else {
				err = B.s.SendMessage(ctx, m)
			}
			if err != nil {
				return true, w.fail("send-error", "pipelined send: %v", err)
			}
		}
		if !w.xfer(B, A) {
			return true, false
		}
		got, err := A.s.ReceiveCompleteMessage(ctx)
		if err != nil || !bytes.Equal(got, m1) {
			return true, w.fail("data-mismatch", "first of two pipelined messages: %v", err)
		}
		w.queued = m2
		return true, true
	case "A-recv-queued":
		if w.queued == nil || A.pRecv {
			return false, true
		}
		got, err := A.s.ReceiveCompleteMessage(ctx)
		if err != nil {
			return true, w.fail(fmt.Sprintf("auth-failure/queued-message/handoffs=%d", min(A.handoffs, 2)), "the message that was already on the connection when A was handed off (%d hand-offs) could not be received: %v", A.handoffs, err)
		}
		if !bytes.Equal(got, w.queued) {
			return true, w.fail("data-mismatch", "queued message altered across a hand-off")
		}
		w.queued = nil
		return true, true
	case "A-precv-begin":
		if A.pRecv || B.pSend || w.queued != nil {
			return false, true
		}
		if err := B.s.SendPartialMessage(ctx, []byte("abcd")); err != nil {
			return true, w.fail("send-error", "%v", err)
		}
		if err := B.s.SendMessage(ctx, []byte("efghij")); err != nil {
			return true, w.fail("send-error", "%v", err)
		}
		if w.step%2 == 1 {
			// variant: only the FIRST frame of the two-frame message has arrived when A reads;
			// the read fails between the frames (nothing more on the connection yet), and the
			// stream now holds a partially consumed message
			if !w.xfer(B, A) {
				return true, false
			}
			fr, _ := refcodec.ParseFrames(A.conn.R)
			if len(fr) != 2 {
				return true, w.fail("harness", "expected a two-frame message, got %d frames", len(fr))
			}
			w.held = append([]byte(nil), A.conn.R[fr[1].Off:]...)
			A.conn.R = A.conn.R[:fr[1].Off]
			if err := A.s.StartMessageRead(ctx); err == nil {
				return true, w.fail("data-mismatch", "StartMessageRead succeeded although only the first frame of the message had arrived")
			}
			A.pRecv, A.pRecvHalf = true, true
			return true, true
		}
		if !w.xfer(B, A) {
			return true, false
		}
		if err := A.s.StartMessageRead(ctx); err != nil {
			return true, w.fail("auth-failure/partial-recv", "StartMessageRead: %v", err)
		}
		buf := make([]byte, 3)
		if n, err := A.s.ReadMessageBytes(ctx, buf); err != nil || n != 3 || string(buf) != "abc" {
			return true, w.fail("data-mismatch", "partial read: %v", err)
		}
		A.pRecv = true
		return true, true
	case "A-precv-finish":
		if !A.pRecv {
			return false, true
		}
		if A.pRecvHalf {
			// the second frame arrives; the interrupted read is taken up again
			A.conn.R = append(A.conn.R, w.held...)
			w.held, A.pRecvHalf = nil, false
			if err := A.s.StartMessageRead(ctx); err != nil {
				return true, w.fail("auth-failure/partial-recv", "StartMessageRead after the rest of the message arrived: %v", err)
			}
			buf := make([]byte, 16)
			n, err := A.s.ReadMessageBytes(ctx, buf)
			if err != nil || string(buf[:n]) != "abcdefghij" {
				return true, w.fail("data-mismatch", "message interrupted between its frames arrived as %q (%v)", buf[:n], err)
			}
			if err := A.s.EndMessageRead(); err != nil {
				return true, w.fail("data-mismatch", "EndMessageRead: %v", err)
			}
			A.pRecv = false
			return true, true
		}
		buf := make([]byte, 7)
		n, err := A.s.ReadMessageBytes(ctx, buf)
		if err != nil || string(buf[:n]) != "defghij" {
			return true, w.fail("data-mismatch", "finishing the partial read: %q %v", buf[:n], err)
		}
		if err := A.s.EndMessageRead(); err != nil {
			return true, w.fail("data-mismatch", "EndMessageRead: %v", err)
		}
		A.pRecv = false
		return true, true
	case "handoff-A":
		return true, w.handoff(A, "A")
	case "handoff-B":
		return true, w.handoff(B, "B")
	}
	panic(op)
}

func c15Run(id string, hist []int) *vlib.Result {
	res := &vlib.Result{Evals: 1}
	w := c15Setup(id, res)
	res.States = append(res.States, w.stateKey())
	if !w.probeExport() {
		return res
	}
	exports := 0
	for i, op := range hist {
		w.step = i
		en, ok := w.apply(c15Ops[op])
		if !ok {
			return res
		}
		if !en {
			res.Outcome("history-has-disabled-op")
			res.Skipped = 1
			return res
		}
		res.Transitions++
		res.States = append(res.States, w.stateKey())
		if w.A.sentProt+w.B.sentProt > 0 {
			exports++
		}
		if !w.probeExport() {
			return res
		}
	}
	// arbitrary further traffic: finish pending partials, then both directions
	w.step = len(hist)
	if w.A.pSend {
		if _, ok := w.apply("A-psend-finish"); !ok {
			return res
		}
	}
	if w.A.pRecv {
		if _, ok := w.apply("A-precv-finish"); !ok {
			return res
		}
	}
	if w.queued != nil {
		if _, ok := w.apply("A-recv-queued"); !ok {
			return res
		}
	}
	for _, op := range []string{"AB1", "BA5000", "AB5000", "BA1"} {
		if _, ok := w.apply(op); !ok {
			return res
		}
	}
	for _, e := range []*c15End{w.A, w.B} {
		for n, c := range e.dir.Nonces {
			if c > 1 {
				w.fail("nonce-reuse", "nonce %x used %d times", n, c)
				return res
			}
		}
	}
	if exports > 0 {
		res.Nontrivial = 1
	}
	res.Outcome(fmt.Sprintf("ok-handoffs=%d", min(w.A.handoffs+w.B.handoffs, 4)))
	return res
}

// c15BlobFaults: truncations / magic / version must be rejected; byte
// corruptions must not panic (counted only).
func c15BlobFaults(tier string) *vlib.Result {
	res := &vlib.Result{}
	w := c15Setup("blob", res)
	w.apply("AB1")
	w.apply("BA1")
	blob, err := w.A.s.ExportCryptoState()
	if err != nil {
		res.Violate("C15/harness", "export: %v", err)
		return res
	}
	for n := 0; n < len(blob); n++ {
		res.Evals++
		res.Nontrivial++
		if _, err := stream.NewStreamWithCryptoState(&netsim.Buf{}, blob[:n]); err == nil {
			res.Violate("C15/import-accepts-truncated", "blob of %d bytes truncated to %d was accepted", len(blob), n)
		}
	}
	for i := 0; i < 4; i++ {
		for _, x := range []byte{0x01, 0x20, 0x80, 0xff} {
			b := append([]byte(nil), blob...)
			b[i] ^= x
			res.Evals++
			if _, err := stream.NewStreamWithCryptoState(&netsim.Buf{}, b); err == nil {
				res.Violate("C15/import-accepts-bad-magic", "magic byte %d xor %#x accepted", i, x)
			}
		}
	}
	for v := 0; v < 65536; v++ {
		if v == 1 {
			continue
		}
		if tier != "thorough" && v > 300 && v%257 != 0 {
			continue
		}
		b := append([]byte(nil), blob...)
		b[4], b[5] = byte(v>>8), byte(v)
		res.Evals++
		if _, err := stream.NewStreamWithCryptoState(&netsim.Buf{}, b); err == nil {
			res.Violate("C15/import-accepts-wrong-version", "version %d accepted", v)
		}
	}
	corruptOK := 0
	for i := 6; i < len(blob); i++ {
		for _, x := range []byte{0x01, 0x80, 0xff} {
			b := append([]byte(nil), blob...)
			b[i] ^= x
			res.Evals++
			if _, err := stream.NewStreamWithCryptoState(&netsim.Buf{}, b); err == nil {
				corruptOK++
			}
		}
	}
	res.Outcome(fmt.Sprintf("blob-faults-done"))
	res.Sample = map[string]any{"blob_len": len(blob), "single_byte_corruptions_accepted_outside_statement": corruptOK}
	return res
}

func C15Plan() *vlib.Plan {
	p := &vlib.Plan{
		Property: "C15", Level: "model_checking",
		Rule:   "E-BFS: all histories of length <= D over 12 operations (1/5000-byte message each way, begin/finish partial send (below the flush threshold, and above it so that a first frame has already gone out), begin/finish partial receive, hand-off of A, hand-off of B, B pipelines two messages of which A reads the first - the second stays in flight on the connection -, A reads the in-flight message) replayed on two fresh real streams keyed after a cleartext preamble; in every state ExportCryptoState is attempted on both ends and must succeed only if the reference model says established+clean; every frame on the wire is opened by the reference decryptor (nonce continuity across hand-offs, no reuse); each history ends with four further messages; histories of <= 4 operations that contain a hand-off also run on streams that were keyed with another key first and then re-keyed. Blob faults: every truncation, magic and version variants must be rejected. Non-trivial = history in which an export was attempted after at least one protected frame.",
		Assume: []string{"a conservative refusal (e.g. after EndMessage until StartMessage) is recorded, not flagged; single-byte corruption of key/IV/counter bytes is outside the statement (counted)"},
	}
	p.Gen = func(tier string, yield func(vlib.Case)) {
		D := 5
		if tier == "thorough" {
			D = 7
		}
		p.Bounds = map[string]any{"history_depth": D, "ops": c15Ops}
		var rec func(h []int, ps, pr bool)
		rec = func(h []int, ps, pr bool) {
			hh := append([]int(nil), h...)
			id := fmt.Sprintf("%v", hh)
			yield(vlib.Case{ID: id, Run: func() *vlib.Result {
				r := c15Run(id, hh)
				names := make([]string, len(hh))
				for i, o := range hh {
					names[i] = c15Ops[o]
				}
				r.Sample = names
				return r
			}})
			// histories with a hand-off also on streams that were re-keyed before the traffic
			for _, o := range hh {
				if strings.HasPrefix(c15Ops[o], "handoff") && len(hh) <= 4 {
					rid := "rekeyed " + id
					yield(vlib.Case{ID: rid, Run: func() *vlib.Result { return c15Run(rid, hh) }})
					break
				}
			}
			if len(h) == D {
				return
			}
			for op, name := range c15Ops {
				// prune histories whose next op is disabled (mirrors apply's guards)
				nps, npr := ps, pr
				switch name {
				case "AB1", "AB5000":
					if ps {
						continue
					}
				case "BA1", "BA5000":
					if pr {
						continue
					}
				case "A-psend-begin":
					if ps {
						continue
					}
					nps = true
				case "A-psend-finish":
					if !ps {
						continue
					}
					nps = false
				case "A-precv-begin":
					if pr {
						continue
					}
					npr = true
				case "A-precv-finish":
					if !pr {
						continue
					}
					npr = false
				}
				rec(append(h, op), nps, npr)
			}
		}
		rec(nil, false, false)
		yield(vlib.Case{ID: "blob-faults", Run: func() *vlib.Result { return c15BlobFaults(tier) }})
	}
	return p
}
