package props

// C20, held hellos: reverse connections are OPENED in one order and present their
// greetings in another, so a connection can be waiting behind the one the dial is
// busy with. Both kinds of reverse-connect port: the dial's own TCP listener and a
// shared-port endpoint (connections forwarded over the endpoint's unix socket).
// Whatever the order, the dial returns only the connection that presented its id,
// and every other connection that reached the port ends up closed.

import (
	"context"
	"errors"
	"fmt"
	"io"
	"net"
	"os"
	"path/filepath"
	"runtime/debug"
	"strings"
	"sync"
	"time"

	"github.com/bbockelm/cedar/addresses"
	"github.com/bbockelm/cedar/ccb"
	"github.com/bbockelm/cedar/client/sharedport"

	"verif/refcodec"
	"verif/vlib"
)

// c20HeldOrders: every interleaving of the given connections' open (o) / hello (h)
// events with each connection's open before its hello; conns without a hello (silent)
// contribute only their open.
func c20HeldOrders(conns []string, silent map[string]bool, extra ...string) [][]string {
	evs := append([]string(nil), extra...)
	for _, c := range conns {
		evs = append(evs, "o"+c)
		if !silent[c] {
			evs = append(evs, "h"+c)
		}
	}
	var out [][]string
	var rec func(done []string, used map[string]bool)
	rec = func(done []string, used map[string]bool) {
		if len(done) == len(evs) {
			out = append(out, append([]string{}, done...))
			return
		}
		for _, e := range evs {
			if used[e] || (e[0] == 'h' && len(e) > 1 && !used["o"+e[1:]]) {
				continue
			}
			used[e] = true
			rec(append(done, e), used)
			used[e] = false
		}
	}
	rec(nil, map[string]bool{})
	return out
}

// c20Held: mode "tcp" or "sharedport"; kinds maps a rogue connection's name to
// {wrong, garbage, silent, old}; "L" is the legitimate connection.
func c20Held(res *vlib.Result, mode string, order []string, kinds map[string]string) {
	c20NestedMu.Lock() // a dropped connection must not be rescued by a finaliser while we watch it
	defer c20NestedMu.Unlock()
	defer debug.SetGCPercent(debug.SetGCPercent(-1))
	res.Evals++
	id := fmt.Sprintf("%s order [%s] kinds %v", mode, strings.Join(order, ","), kinds)
	b, err := startC20Broker(nil)
	if err != nil {
		res.Violate("C20/harness", "%v", err)
		return
	}
	defer b.stop()
	type req struct{ id, my string }
	reqCh := make(chan req, 1)
	b.onRequest = func(i, m string) {
		select {
		case reqCh <- req{i, m}:
		default:
		}
	}
	hasSilentBeforeL := false
	for _, e := range order {
		if e == "hL" {
			break
		}
		if e[0] == 'o' && kinds[e[1:]] == "silent" {
			hasSilentBeforeL = true
		}
	}
	hasFail, failBeforeL := false, false
	for _, e := range order {
		if e == "F" {
			hasFail, failBeforeL = true, true
		}
		if e == "hL" && !hasFail {
			break
		}
	}
	for _, e := range order {
		if e == "F" {
			hasFail = true
		}
	}
	opts := ccb.DialOptions{Security: c20Sec(), Stagger: -1, Timeout: 20 * time.Second}
	if hasSilentBeforeL && !hasFail {
		opts.Timeout = 1500 * time.Millisecond // a mute connection ahead of the legitimate one holds the loop until the dial's own deadline
	}
	dir := ""
	if mode == "sharedport" {
		dir = filepath.Join(verifDir(), ".build", fmt.Sprintf("c20h-%d", os.Getpid()))
		_ = os.RemoveAll(dir)
		_ = os.MkdirAll(dir, 0o700)
		defer os.RemoveAll(dir)
		opts.SharedPortEndpoint = &ccb.SharedPortEndpointConfig{SharedPortAddr: "127.0.0.1:9618", SocketDir: dir}
	} else {
		opts.ListenAddr = "127.0.0.1:0"
	}
	type dres struct {
		c   net.Conn
		err error
	}
	dialCh := make(chan dres, 1)
	go func() {
		c, err := ccb.Dial(context.Background(), []addresses.CCBContact{{BrokerAddr: b.addr, CCBID: "1", Raw: b.addr + "#1"}}, opts)
		dialCh <- dres{c, err}
	}()
	var rq req
	select {
	case rq = <-reqCh:
	case d := <-dialCh:
		res.Violate("C20/harness", "%s: dial ended before the broker saw a request: %v", id, d.err)
		return
	case <-time.After(15 * time.Second):
		res.Violate("C20/harness", "%s: broker never saw the request", id)
		return
	}
	res.Nontrivial++
	// open: reach the reverse-connect port; returns our end of the connection
	open := func() net.Conn {
		if mode == "tcp" {
			c, err := net.Dial("tcp", strings.Trim(rq.my, "<>"))
			if err != nil {
				return nil
			}
			return c
		}
		i := strings.Index(rq.my, "sock=")
		if i < 0 {
			return nil
		}
		name := strings.TrimRight(rq.my[i+5:], ">")
		if j := strings.IndexAny(name, "&>"); j >= 0 {
			name = name[:j]
		}
		// play condor_shared_port: a loopback TCP pair whose inbound end is passed to the endpoint
		ln, err := net.Listen("tcp", "127.0.0.1:0")
		if err != nil {
			return nil
		}
		defer ln.Close()
		peer, err := net.Dial("tcp", ln.Addr().String())
		if err != nil {
			return nil
		}
		in, err := ln.Accept()
		if err != nil {
			peer.Close()
			return nil
		}
		defer in.Close()
		ua, _ := net.ResolveUnixAddr("unix", filepath.Join(dir, name))
		uds, err := net.DialUnix("unix", nil, ua)
		if err != nil {
			peer.Close()
			return nil
		}
		defer uds.Close()
		f, err := in.(*net.TCPConn).File()
		if err != nil {
			peer.Close()
			return nil
		}
		defer f.Close()
		ctx, cancel := context.WithTimeout(context.Background(), 5*time.Second)
		defer cancel()
		if err := sharedport.SendForwardedConn(ctx, uds, f.Fd()); err != nil {
			peer.Close()
			return nil
		}
		return peer
	}
	conns := map[string]net.Conn{}
	var dialDone *dres
	settle := func() {
		if dialDone != nil {
			return
		}
		select {
		case d := <-dialCh:
			dialDone = &d
		case <-time.After(80 * time.Millisecond):
		}
	}
	failSentAt := time.Time{}
	for _, e := range order {
		name := e[1:]
		if e == "F" {
			// the broker reports that it could not get the target to connect back
			if dialDone == nil {
				b.reply(false)
				failSentAt = time.Now()
				res.Transitions++
			}
			settle()
			continue
		}
		switch e[0] {
		case 'o':
			if c := open(); c != nil {
				conns[name] = c
				res.Transitions++
			}
		case 'h':
			c := conns[name]
			if c == nil {
				continue
			}
			switch {
			case name == "L":
				_, _ = c.Write(append(c20Hello(rq.id), refcodec.MkFrame(1, []byte("TOKEN-from-"+b.addr))...))
			case kinds[name] == "wrong":
				_, _ = c.Write(append(c20Hello("dddddddddddddddddddddddddddddddddddddddd"), refcodec.MkFrame(1, []byte("TOKEN-from-rogue"))...))
			case kinds[name] == "old":
				_, _ = c.Write(append(c20Hello(c20OldID), refcodec.MkFrame(1, []byte("TOKEN-from-rogue"))...))
			case kinds[name] == "garbage":
				_, _ = c.Write([]byte("\x01\x00\x00\x00\x20this is not a cedar hello at all!"))
			}
		}
		settle()
	}
	if dialDone == nil && !failSentAt.IsZero() && failBeforeL {
		// a failure reported by the broker ends the attempt with that error - not with the dial's own
		// timeout much later, whatever else is pending at the reverse-connect port
		select {
		case d := <-dialCh:
			dialDone = &d
		case <-time.After(8 * time.Second):
			res.Violate("C20/held/broker-failure-did-not-end-the-attempt/"+mode, "%s: 8 s after the broker reported a failure the dial (timeout 20 s) had still not returned", id)
		}
	}
	if dialDone == nil {
		select {
		case d := <-dialCh:
			dialDone = &d
		case <-time.After(30 * time.Second):
			res.Violate("C20/held/dial-never-returned", "%s", id)
			return
		}
	}
	outcome := "error"
	if dialDone.err == nil {
		outcome = "conn"
		if tok := readToken(dialDone.c); tok != "TOKEN-from-"+b.addr {
			res.Violate("C20/held/returned-conn-is-not-the-legit-one/"+mode, "%s: the returned connection delivered %q, not the token written on the connection that presented the id", id, tok)
		}
		defer dialDone.c.Close()
	} else if !hasSilentBeforeL && !hasFail && conns["L"] != nil {
		res.Violate("C20/held/legit-not-returned/"+mode, "%s: %v", id, dialDone.err)
	} else if failBeforeL && !failSentAt.IsZero() && !strings.Contains(dialDone.err.Error(), "scripted broker failure") {
		res.Violate("C20/held/broker-failure-reason-lost/"+mode, "%s: the broker reported a failure before any connection presented the id, the dial ended with %q", id, dialDone.err)
	}
	// every other connection that reached the port must be closed now that the dial is over
	var wg sync.WaitGroup
	var mu sync.Mutex
	for name, c := range conns {
		if name == "L" && dialDone.err == nil {
			continue
		}
		wg.Add(1)
		go func(name string, c net.Conn) {
			defer wg.Done()
			_ = c.SetReadDeadline(time.Now().Add(5 * time.Second))
			_, rerr := io.Copy(io.Discard, c)
			var ne net.Error
			if errors.As(rerr, &ne) && ne.Timeout() {
				k := kinds[name]
				if name == "L" {
					k = "legit-after-failed-dial"
				}
				mu.Lock()
				res.Violate("C20/held/conn-left-open/"+mode+"/"+k, "%s: connection %s reached the dial's reverse-connect port, was not returned, and was still open 5 s after the dial ended (%s)", id, name, outcome)
				mu.Unlock()
			}
			_ = c.Close()
		}(name, c)
	}
	wg.Wait()
	res.Outcome("held-" + outcome)
}

func c20HeldCases(tier string, yield func(vlib.Case)) {
	type set struct {
		conns []string
		kinds map[string]string
	}
	sets := []set{
		{[]string{"L", "R"}, map[string]string{"R": "wrong"}},
		{[]string{"L", "R"}, map[string]string{"R": "garbage"}},
		{[]string{"L", "R"}, map[string]string{"R": "silent"}},
	}
	if tier == "thorough" {
		sets = append(sets,
			set{[]string{"L", "R"}, map[string]string{"R": "old"}},
			set{[]string{"L", "R", "S"}, map[string]string{"R": "wrong", "S": "garbage"}},
			set{[]string{"L", "R", "S"}, map[string]string{"R": "wrong", "S": "silent"}},
		)
	}
	for _, mode := range []string{"tcp", "sharedport"} {
		for _, s := range sets {
			silent := map[string]bool{}
			for n, k := range s.kinds {
				silent[n] = k == "silent"
			}
			orders := c20HeldOrders(s.conns, silent)
			if len(s.conns) == 2 {
				// the broker's failure reply racing with the connections (it is decisive only when it
				// comes before the legitimate greeting; after it either outcome is documented)
				for _, o := range c20HeldOrders(s.conns, silent, "F") {
					fi, hl := -1, len(o)
					for i, e := range o {
						if e == "F" {
							fi = i
						}
						if e == "hL" {
							hl = i
						}
					}
					if fi < hl {
						orders = append(orders, o)
					}
				}
			}
			for _, o := range orders {
				mode, s, o := mode, s, o
				var ks []string
				for _, n := range s.conns[1:] {
					ks = append(ks, s.kinds[n])
				}
				yield(vlib.Case{ID: fmt.Sprintf("held/%s/%s/%s", mode, strings.Join(ks, "+"), strings.Join(o, ",")), Run: func() *vlib.Result {
					res := &vlib.Result{}
					c20Held(res, mode, o, s.kinds)
					res.Sample = map[string]any{"mode": mode, "order": o, "kinds": s.kinds}
					return res
				}})
			}
		}
	}
}
