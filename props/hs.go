package props

// Handshake harness shared by the security checks: two parties on a netsim
// pipe (with quiescence detection), each either the real cedar endpoint or a
// scripted peer; per-direction frame hooks (observe / edit / insert / drop);
// optional application ping/pong after the handshake.

import (
	"context"
	"crypto/hmac"
	"crypto/sha256"
	"encoding/base64"
	"encoding/json"
	"fmt"
	"io"
	"log/slog"
	"os"
	"path/filepath"
	"sync"
	"time"

	"golang.org/x/crypto/hkdf"

	"github.com/bbockelm/cedar/security"
	"github.com/bbockelm/cedar/stream"

	"verif/netsim"
)

func init() {
	// cedar logs every handshake step at Info; silence it.
	slog.SetDefault(slog.New(slog.NewTextHandler(io.Discard, &slog.HandlerOptions{Level: slog.LevelError + 8})))
}

const (
	hsClientAddr = "10.1.1.1:40001"
	hsServerAddr = "10.2.2.2:9618"
)

type hsParty struct {
	Cfg     *security.SecurityConfig
	Auth    *security.Authenticator
	Neg     *security.SecurityNegotiation
	Err     error
	Stream  *stream.Stream
	End     *netsim.End
	AppGot  []byte
	AppErr  error
	Resumed bool
	Panic   string
	// ClosedByEndpoint: the conn was already closed when the endpoint's call
	// returned (before the harness closes anything).
	ClosedByEndpoint bool
}

type hsOpts struct {
	ClientCfg, ServerCfg *security.SecurityConfig
	// Scripted replacements (nil = real cedar endpoint).
	ClientScript func(end *netsim.End) error
	ServerScript func(end *netsim.End) error
	// Frame hooks: called with the index of the frame in its direction and the
	// whole frame; return the frames to deliver instead.
	HookC2S, HookS2C func(idx int, frame []byte) [][]byte
	App              bool // client sends "ping", server answers "pong"
	ClientAddr       string
	ServerAddr       string
	ServerCfgForCmd  func(int) *security.SecurityConfig
	// ServerAfter runs on the server party after a successful handshake instead of App.
	ServerAfter func(p *hsParty) error
	ClientAfter func(p *hsParty) error
	// Cancellation / stall injection (C19). Stall: 0 = off, -1 = count operations
	// only, k+1 = the k-th conn operation of that endpoint blocks until Close.
	ClientCtx, ServerCtx     context.Context
	ClientStall, ServerStall int
	// ClientAfterOp / ServerAfterOp = k > 0: OnAfterOp runs right after that endpoint's conn op k-1
	// has completed (between two I/O steps)
	ClientAfterOp, ServerAfterOp int
	OnAfterOp                    func()
	Stalled                  chan struct{} // closed when the stall point is entered
	// > 0: that endpoint's reads return at most this many bytes per call (trickling link)
	ClientReadChunk, ServerReadChunk int
	Watchdog                 time.Duration
}

type hsResult struct {
	C, S       hsParty
	Stuck      bool
	C2S, S2C   [][]byte // frames as sent by the endpoint (before the hook)
	C2SW, S2CW [][]byte // frames as delivered (after the hook)
	Timeout    bool
}

func hsRun(o hsOpts) *hsResult {
	w := netsim.NewWorld(2)
	ca, sa := o.ClientAddr, o.ServerAddr
	if ca == "" {
		ca = hsClientAddr
	}
	if sa == "" {
		sa = hsServerAddr
	}
	ce, se := netsim.Pipe(w, ca, sa)
	r := &hsResult{}
	var mu sync.Mutex
	mkHook := func(sent, wire *[][]byte, hook func(int, []byte) [][]byte) func([]byte) [][]byte {
		var sp netsim.FrameSplitter
		idx := 0
		return func(data []byte) [][]byte {
			var out [][]byte
			for _, f := range sp.Feed(data) {
				mu.Lock()
				*sent = append(*sent, f)
				mu.Unlock()
				del := [][]byte{f}
				if hook != nil {
					del = hook(idx, f)
				}
				idx++
				mu.Lock()
				*wire = append(*wire, del...)
				mu.Unlock()
				out = append(out, del...)
			}
			return out
		}
	}
	ce.Hook = mkHook(&r.C2S, &r.C2SW, o.HookC2S)
	se.Hook = mkHook(&r.S2C, &r.S2CW, o.HookS2C)
	r.C.End, r.S.End = ce, se
	ce.ReadChunk, se.ReadChunk = o.ClientReadChunk, o.ServerReadChunk
	for _, x := range []struct {
		e *netsim.End
		k int
	}{{ce, o.ClientStall}, {se, o.ServerStall}} {
		switch {
		case x.k == -1:
			x.e.StallAt = 1 << 30
		case x.k > 0:
			x.e.StallAt = x.k - 1
			x.e.Stalled = o.Stalled
		}
	}
	if o.ClientAfterOp > 0 {
		ce.AfterOp, ce.OnAfterOp = o.ClientAfterOp-1, o.OnAfterOp
	}
	if o.ServerAfterOp > 0 {
		se.AfterOp, se.OnAfterOp = o.ServerAfterOp-1, o.OnAfterOp
	}
	ctx := context.Background()
	cctx, sctx := ctx, ctx
	if o.ClientCtx != nil {
		cctx = o.ClientCtx
	}
	if o.ServerCtx != nil {
		sctx = o.ServerCtx
	}
	var wg sync.WaitGroup
	wg.Add(2)
	guard := func(p *hsParty, e *netsim.End) {
		if x := recover(); x != nil {
			p.Panic = fmt.Sprint(x)
			p.Err = fmt.Errorf("PANIC in endpoint: %v", x)
			e.Close()
		}
	}
	go func() { // client
		defer wg.Done()
		defer w.Done()
		p := &r.C
		defer guard(p, ce)
		if o.ClientScript != nil {
			p.Err = o.ClientScript(ce)
			if p.Err != nil {
				ce.Close()
			}
			return
		}
		p.Cfg = o.ClientCfg
		p.Stream = stream.NewStream(ce)
		p.Auth = security.NewAuthenticator(p.Cfg, p.Stream)
		p.Neg, p.Err = p.Auth.ClientHandshake(cctx)
		p.ClosedByEndpoint = ce.IsClosed() || p.Err != nil && o.ClientCtx != nil && (o.ClientStall > 0 || o.ClientAfterOp > 0) && ce.ClosedSoon(3*time.Second)
		if p.Err != nil {
			ce.Close()
			return
		}
		p.Resumed = p.Auth.WasSessionResumed()
		if o.ClientAfter != nil {
			p.AppErr = o.ClientAfter(p)
			return
		}
		if o.App {
			if err := p.Stream.SendMessage(cctx, []byte("ping-from-client")); err != nil {
				p.AppErr = err // (set first: the close that follows a cancellation is asynchronous and is waited for only after an error)
				p.ClosedByEndpoint = ce.IsClosed() || (p.Err != nil || p.AppErr != nil) && o.ClientCtx != nil && (o.ClientStall > 0 || o.ClientAfterOp > 0) && ce.ClosedSoon(3*time.Second)
				p.AppErr = err
				ce.Close()
				return
			}
			p.AppGot, p.AppErr = p.Stream.ReceiveCompleteMessage(cctx)
			p.ClosedByEndpoint = ce.IsClosed() || (p.Err != nil || p.AppErr != nil) && o.ClientCtx != nil && (o.ClientStall > 0 || o.ClientAfterOp > 0) && ce.ClosedSoon(3*time.Second)
			if p.AppErr != nil {
				ce.Close()
			}
		}
	}()
	go func() { // server
		defer wg.Done()
		defer w.Done()
		p := &r.S
		defer guard(p, se)
		if o.ServerScript != nil {
			p.Err = o.ServerScript(se)
			if p.Err != nil {
				se.Close()
			}
			return
		}
		p.Cfg = o.ServerCfg
		p.Stream = stream.NewStream(se)
		p.Auth = security.NewAuthenticator(p.Cfg, p.Stream)
		if o.ServerCfgForCmd != nil {
			p.Auth.ServerConfigForCommand = o.ServerCfgForCmd
		}
		p.Neg, p.Err = p.Auth.ServerHandshake(sctx)
		p.ClosedByEndpoint = se.IsClosed() || p.Err != nil && o.ServerCtx != nil && (o.ServerStall > 0 || o.ServerAfterOp > 0) && se.ClosedSoon(3*time.Second)
		if p.Err != nil {
			se.Close()
			return
		}
		p.Resumed = p.Auth.WasSessionResumed()
		if o.ServerAfter != nil {
			p.AppErr = o.ServerAfter(p)
			return
		}
		if o.App {
			p.AppGot, p.AppErr = p.Stream.ReceiveCompleteMessage(sctx)
			p.ClosedByEndpoint = se.IsClosed() || (p.Err != nil || p.AppErr != nil) && o.ServerCtx != nil && (o.ServerStall > 0 || o.ServerAfterOp > 0) && se.ClosedSoon(3*time.Second)
			if p.AppErr != nil {
				se.Close()
				return
			}
			if err := p.Stream.SendMessage(sctx, []byte("pong-from-server")); err != nil {
				p.AppErr = err
				p.ClosedByEndpoint = se.IsClosed() || (p.Err != nil || p.AppErr != nil) && o.ServerCtx != nil && (o.ServerStall > 0 || o.ServerAfterOp > 0) && se.ClosedSoon(3*time.Second)
				p.AppErr = err
				se.Close()
			}
		}
	}()
	done := make(chan struct{})
	go func() { wg.Wait(); close(done) }()
	select {
	case <-done:
	case <-time.After(func() time.Duration {
		if o.Watchdog > 0 {
			return o.Watchdog
		}
		return 60 * time.Second
	}()):
		r.Timeout = true
		ce.Close()
		se.Close()
		<-done
	}
	r.Stuck = w.Stuck()
	return r
}

// ---- token environment (independent minting) ----

type tokenEnv struct {
	Dir         string
	PoolKeyFile string
	KeyDir      string
	PoolKey     []byte // unscrambled
	K1          []byte
}

var (
	tokOnce sync.Once
	tokEnv  *tokenEnv
)

func scramble(b []byte) []byte {
	db := []byte{0xde, 0xad, 0xbe, 0xef}
	o := make([]byte, len(b))
	for i := range b {
		o[i] = b[i] ^ db[i%4]
	}
	return o
}

func getTokenEnv() *tokenEnv {
	tokOnce.Do(func() {
		base := filepath.Join(verifDir(), ".build")
		_ = os.MkdirAll(base, 0o755)
		dir, err := os.MkdirTemp(base, "tok-")
		if err != nil {
			panic(err)
		}
		e := &tokenEnv{Dir: dir, PoolKeyFile: filepath.Join(dir, "pool_key"), KeyDir: filepath.Join(dir, "keys")}
		_ = os.MkdirAll(e.KeyDir, 0o700)
		e.PoolKey = []byte("verif_pool_signing_key_32bytes!!")
		e.K1 = []byte("verif_named_key_k1_32_bytes_long")
		_ = os.WriteFile(e.PoolKeyFile, scramble(e.PoolKey), 0o600)
		_ = os.WriteFile(filepath.Join(e.KeyDir, "k1"), scramble(e.K1), 0o600)
		// named keys whose length is not a multiple of 4 (key files are arbitrary byte strings)
		_ = os.WriteFile(filepath.Join(e.KeyDir, "k33"), scramble([]byte(c11Key33)), 0o600)
		_ = os.WriteFile(filepath.Join(e.KeyDir, "k6"), scramble([]byte(c11Key6)), 0o600)
		tokEnv = e
	})
	return tokEnv
}

const (
	c11Key33 = "verif_named_key_of_33_bytes_long!"
	c11Key6  = "sixkey"
)

func verifDir() string {
	if d := os.Getenv("VERIF_DIR"); d != "" {
		return d
	}
	return "/verif"
}

// CleanupTokenEnv removes the temp key material.
func CleanupTokenEnv() {
	if tokEnv != nil {
		_ = os.RemoveAll(tokEnv.Dir)
	}
}

// jwtSig: HKDF(key [doubled for POOL], salt "htcondor", info "master jwt") then
// HMAC-SHA256 over "header.payload" (independent of the code under test).
func jwtSig(key []byte, kid, signData string) []byte {
	in := key
	if kid == "POOL" {
		in = append(append([]byte{}, key...), key...)
	}
	k := make([]byte, 32)
	_, _ = io.ReadFull(hkdf.New(sha256.New, in, []byte("htcondor"), []byte("master jwt")), k)
	m := hmac.New(sha256.New, k)
	m.Write([]byte(signData))
	return m.Sum(nil)
}

func mintToken(key []byte, kid string, header, payload map[string]any) string {
	if header == nil {
		header = map[string]any{"alg": "HS256", "typ": "JWT", "kid": kid}
	}
	hb, _ := json.Marshal(header)
	pb, _ := json.Marshal(payload)
	sd := base64.RawURLEncoding.EncodeToString(hb) + "." + base64.RawURLEncoding.EncodeToString(pb)
	return sd + "." + base64.RawURLEncoding.EncodeToString(jwtSig(key, kid, sd))
}

func goodToken(sub string) string {
	e := getTokenEnv()
	now := time.Now().Unix()
	return mintToken(e.PoolKey, "POOL", nil, map[string]any{"sub": sub, "iss": "verif.domain", "iat": now - 10, "exp": now + 3600, "jti": "abcdef0123456789"})
}

// baseCfg builds a SecurityConfig for one side.
func baseCfg(auth, enc security.SecurityLevel, methods []security.AuthMethod, ciphers []security.CryptoMethod, server bool) *security.SecurityConfig {
	e := getTokenEnv()
	c := &security.SecurityConfig{
		AuthMethods:    methods,
		Authentication: auth,
		CryptoMethods:  ciphers,
		Encryption:     enc,
		Integrity:      security.SecurityOptional,
		TrustDomain:    "verif.domain",
		Command:        security.NoCommand,
	}
	for _, m := range methods {
		if m == security.AuthSSL {
			// throw-away CA + "localhost" server certificate (see c19Certs)
			ca, cert, key := c19Certs()
			c.CAFile = ca
			if server {
				c.CertFile, c.KeyFile = cert, key
			} else {
				c.ServerName = "localhost"
			}
		}
	}
	if server {
		c.TokenPoolSigningKeyFile = e.PoolKeyFile
		c.TokenSigningKeyDir = e.KeyDir
		c.IssuerKeys = []string{"POOL", "k1"}
	} else {
		c.Token = goodToken("alice@verif.domain")
		c.SessionCache = security.NewSessionCache()
	}
	return c
}

func errStr(err error) string {
	if err == nil {
		return "<nil>"
	}
	s := err.Error()
	if len(s) > 160 {
		s = s[:160]
	}
	return s
}

var _ = fmt.Sprintf
