package props

// C03 — REQUIRED means required, and the reported handshake outcome is what
// happened. E-ENUM: real endpoint E (both roles) x own 4x4 policy x method
// lists x a catalogue of scripted-peer deviations. The oracle reads the
// scripted peer's own log (what ran on the wire), E's stream state and the
// bytes E sends next (canary).

import (
	"bytes"
	"fmt"
	"strings"

	"github.com/bbockelm/cedar/security"

	"verif/vlib"
)

type c03Peer struct {
	name string
	dev  peerDev
}

var c03ServerPeers = []c03Peer{
	{"honest", peerDev{}},
	{"auth-NO", peerDev{AuthAnswer: "NO"}},
	{"enc-NO", peerDev{EncAnswer: "NO"}},
	{"both-NO", peerDev{AuthAnswer: "NO", EncAnswer: "NO"}},
	{"auth-YES-enc-YES", peerDev{AuthAnswer: "YES", EncAnswer: "YES"}},
	{"ecdh-omit", peerDev{ECDH: "omit"}},
	{"ecdh-truncate", peerDev{ECDH: "truncate"}},
	{"ecdh-random65", peerDev{ECDH: "random65"}},
	{"ecdh-notb64", peerDev{ECDH: "notb64"}},
	{"no-common-cipher", peerDev{NoCipher: true}},
	{"select-unoffered", peerDev{AuthAnswer: "YES", Select: "unoffered"}},
	{"select-several", peerDev{AuthAnswer: "YES", Select: "several"}},
	{"select-all-offered", peerDev{AuthAnswer: "YES", Select: "all-offered"}},
	{"select-all-offered-then-proceed", peerDev{AuthAnswer: "YES", Select: "all-offered-then-proceed"}},
	{"select-zero", peerDev{AuthAnswer: "YES", Select: "zero"}},
	{"denied-after-auth", peerDev{Denied: true}},
	{"postauth-in-clear", peerDev{PostAuthClear: true}},
	{"postauth-with-secret-marker", peerDev{PostAuthSecret: true}},
	// answers that are not the protocol's "YES" / "NO" spelling: whichever way the
	// endpoint reads them, all of its decisions must read them the same way
	{"auth-Yes-mixed-case", peerDev{AuthAnswer: "Yes"}},
	{"auth-yes-lower-case", peerDev{AuthAnswer: "yes"}},
	{"auth-TRUE", peerDev{AuthAnswer: "TRUE"}},
	{"enc-Yes-mixed-case", peerDev{EncAnswer: "Yes"}},
	{"both-yes-lower-case", peerDev{AuthAnswer: "yes", EncAnswer: "yes"}},
}

var c03ClientPeers = []c03Peer{
	{"honest-OPT", peerDev{}},
	{"honest-REQ", peerDev{ClaimLevelAuth: "REQUIRED", ClaimLevelEnc: "REQUIRED"}},
	{"honest-NEVER", peerDev{ClaimLevelAuth: "NEVER", ClaimLevelEnc: "NEVER"}},
	{"ecdh-omit", peerDev{ECDH: "omit"}},
	{"ecdh-omit-REQ", peerDev{ECDH: "omit", ClaimLevelAuth: "REQUIRED", ClaimLevelEnc: "REQUIRED"}},
	{"ecdh-truncate", peerDev{ECDH: "truncate"}},
	{"ecdh-random65", peerDev{ECDH: "random65"}},
	{"ecdh-notb64", peerDev{ECDH: "notb64"}},
	{"no-common-cipher", peerDev{NoCipher: true}},
	{"bitmask-outside", peerDev{BitmaskOutside: true, ClaimLevelAuth: "REQUIRED"}},
	{"skip-bitmask", peerDev{SkipBitmask: true, ClaimLevelAuth: "REQUIRED"}},
	{"methods-TOKEN-only", peerDev{Methods: "TOKEN", ClaimLevelAuth: "PREFERRED"}},
	{"lists-both-methods", peerDev{Methods: "TOKEN,CLAIMTOBE", ClaimLevelAuth: "REQUIRED"}},
}

var c03Methods = [][]security.AuthMethod{{mCTB}, {mTOK}, {mCTB, mTOK}, {mTOK, mCTB}}

func methodsName(ms []security.AuthMethod) string {
	s := []string{}
	for _, m := range ms {
		s = append(s, string(m))
	}
	return strings.Join(s, "+")
}

func inList(ms []security.AuthMethod, m string) bool {
	for _, x := range ms {
		if string(x) == m {
			return true
		}
	}
	return false
}

func framesContain(frames [][]byte, needle string) bool {
	for _, f := range frames {
		if bytes.Contains(f, []byte(needle)) {
			return true
		}
	}
	return false
}

func c03One(res *vlib.Result, role string, auth, enc, integ security.SecurityLevel, methods []security.AuthMethod, pr c03Peer) {
	res.Evals++
	out := &peerOutcome{}
	cfg := baseCfg(auth, enc, methods, []security.CryptoMethod{security.CryptoAES}, role == "server")
	cfg.Integrity = integ
	var r *hsResult
	var E *hsParty
	var eWire [][]byte // frames E sent
	canary := ""
	if role == "client" {
		cfg.Command = 5
		r = hsRun(hsOpts{ClientCfg: cfg, ServerScript: scriptedServer(pr.dev, out), App: true})
		E, eWire, canary = &r.C, nil, "ping-from-client"
	} else {
		r = hsRun(hsOpts{ServerCfg: cfg, ClientScript: scriptedClient(pr.dev, out), App: true})
		E, eWire, canary = &r.S, nil, "pong-from-server"
	}
	if role == "client" {
		eWire = r.C2S
	} else {
		eWire = r.S2C
	}
	id := fmt.Sprintf("role=%s auth=%s enc=%s integ=%s methods=%s peer=%s", role, lv(auth), lv(enc), lv(integ), methodsName(methods), pr.name)
	if r.Timeout {
		res.Violate("C03/hang", "%s", id)
		return
	}
	if E.Neg != nil && role == "server" {
		security.GetSessionCache().Invalidate(E.Neg.SessionId)
	}
	if E.Err != nil {
		res.Outcome("E-refused")
		if len(r.C2S) > 0 && len(r.S2C) > 0 {
			res.Nontrivial++
		}
		return
	}
	res.Nontrivial++
	neg := E.Neg
	key := func(k string) string { return fmt.Sprintf("C03/%s/%s/%s", k, role, pr.name) }
	encrypted := E.Stream.IsEncrypted()
	// (1) own authentication REQUIRED => a listed method really completed
	if auth == security.SecurityRequired {
		if !out.AuthExchangeCompleted || !inList(methods, out.MethodRun) {
			res.Violate(key("auth-required-not-run"), "%s: handshake succeeded with authentication REQUIRED but the peer saw no completed exchange of a listed method (completed=%v method=%q)", id, out.AuthExchangeCompleted, out.MethodRun)
		}
	}
	// (2) own encryption / integrity REQUIRED => stream really AES-GCM, canary protected
	if enc == security.SecurityRequired || integ == security.SecurityRequired {
		if !encrypted {
			res.Violate(key("enc-required-stream-plain"), "%s: handshake succeeded with encryption/integrity REQUIRED but the stream is not encrypted", id)
		} else {
			if framesContain(eWire, canary) {
				res.Violate(key("enc-required-canary-in-clear"), "%s: application bytes visible in clear on the wire", id)
			}
			if out.AppFromE != nil && !out.AppFromEProtected {
				res.Violate(key("enc-required-canary-not-under-key"), "%s: application message did not open under the agreed key", id)
			}
		}
		if role == "server" && len(E.AppGot) > 0 && !out.KeyAgreed {
			res.Violate(key("enc-required-accepted-plain-data"), "%s: server with encryption REQUIRED accepted application data %q from a peer that holds no key", id, trunc(E.AppGot))
		}
	}
	// (3) reported encryption flag equals the stream's real state
	if neg.Encryption != encrypted {
		res.Violate(key("enc-flag-not-real"), "%s: handshake reports Encryption=%v, stream IsEncrypted=%v", id, neg.Encryption, encrypted)
	}
	// (4) reported authentication flag and method are what ran on the wire
	if neg.Authentication != out.AuthExchangeCompleted {
		res.Violate(key("auth-flag-not-real"), "%s: handshake reports Authentication=%v, on the wire an exchange completed=%v", id, neg.Authentication, out.AuthExchangeCompleted)
	}
	if out.AuthExchangeCompleted {
		if string(neg.NegotiatedAuth) != out.MethodRun {
			res.Violate(key("auth-method-not-real"), "%s: reports method %q, %q ran", id, neg.NegotiatedAuth, out.MethodRun)
		}
		if !inList(methods, out.MethodRun) {
			res.Violate(key("ran-unlisted-method"), "%s: E completed method %s which is not in its own list", id, out.MethodRun)
		}
	} else if neg.NegotiatedAuth != "" && neg.NegotiatedAuth != security.AuthNone {
		res.Violate(key("auth-method-reported-none-ran"), "%s: reports method %q although no authentication exchange ran", id, neg.NegotiatedAuth)
	}
	res.Outcome(fmt.Sprintf("E-ok auth-ran=%v enc=%v", out.AuthExchangeCompleted, encrypted))
}

func C03Plan() *vlib.Plan {
	p := &vlib.Plan{
		Property: "C03", Level: "model_checking",
		Rule:   "E-ENUM: real endpoint E in both roles x own policy 4x4 (authentication x encryption; thorough adds Integrity REQUIRED) x method lists (every non-empty ordered subset of {CLAIMTOBE, TOKEN}) x scripted-peer catalogue (honest; answers NO/YES against the table; ECDH key omitted/truncated/random/not base64; no common cipher; selects an unoffered / several / all offered (and then carries on as if authentication were over) / zero method bits; DENIED after authentication; post-auth ad in clear; client role: bitmask outside its list, bitmask skipped, claimed levels). Oracle from the scripted peer's log + E's stream state + E's next bytes (canary). Server role with a per-command policy (server.Server): default 4x4 x strict command 4x4 (x Integrity) x 4 client kinds x {fresh, keep-alive follow-on, resumption of the lax session naming the strict command}; every handler invocation of the strict command is judged against its REQUIRED levels. state = (role, policy cell, peer, outcome class); transitions = handshakes.",
		Assume: []string{"scripted peer speaks CLAIMTOBE only; TOKEN-only lists meet it through the deviation cases", "SSL/KERBEROS/SCITOKENS/FS excluded (cannot complete offline / need a mount namespace)"},
	}
	p.Gen = func(tier string, yield func(vlib.Case)) {
		integs := []security.SecurityLevel{security.SecurityOptional, security.SecurityRequired}
		p.Bounds = map[string]any{"server_role_peers": len(c03ServerPeers), "client_role_peers": len(c03ClientPeers), "method_lists": 4}
		for _, role := range []string{"client", "server"} {
			for _, kind := range []string{"plain", "authed-keyless", "keyed-unauth", "keyed-unauth-predicted", "plain-predicted"} {
				role, kind := role, kind
				yield(vlib.Case{ID: fmt.Sprintf("resumed/%s/%s", role, kind), Run: func() *vlib.Result {
					res := &vlib.Result{}
					for _, a := range c10Levels {
						for _, e := range c10Levels {
							c03Resumed(res, role, kind, a, e)
							res.Transitions += 2
						}
					}
					for o := range res.Outcomes {
						res.States = append(res.States, fmt.Sprintf("resumed/%s/%s:%s", role, kind, o))
					}
					return res
				}})
			}
		}
		c03DispatchCases(tier, yield)
		for _, role := range []string{"client", "server"} {
			peers := c03ServerPeers
			if role == "server" {
				peers = c03ClientPeers
			}
			for _, pr := range peers {
				for _, auth := range c10Levels {
					role, pr, auth := role, pr, auth
					yield(vlib.Case{ID: fmt.Sprintf("%s/%s/auth=%s", role, pr.name, lv(auth)), Run: func() *vlib.Result {
						res := &vlib.Result{}
						for _, enc := range c10Levels {
							for _, integ := range integs {
								for _, ms := range c03Methods {
									c03One(res, role, auth, enc, integ, ms, pr)
									res.Transitions++
								}
							}
						}
						for o := range res.Outcomes {
							res.States = append(res.States, fmt.Sprintf("%s/%s/auth=%s:%s", role, pr.name, lv(auth), o))
						}
						res.Sample = map[string]any{"role": role, "peer": pr.name, "own_auth": auth}
						return res
					}})
				}
			}
		}
	}
	return p
}

// ---- resumed handshakes under a policy that differs from the one the session
// was created under ----

// c03Resumed: a session is established honestly under a lenient policy
// (kind: "plain" = unauthenticated plaintext, "authed-keyless" = authenticated,
// no cipher in common, "keyed-unauth" = encrypted but unauthenticated), then the
// endpoint under test (role) resumes it while its OWN policy is (auth, enc).
func c03Resumed(res *vlib.Result, role, kind string, auth, enc security.SecurityLevel) {
	res.Evals++
	var ca, ce security.SecurityLevel
	var methods []security.AuthMethod
	cc, sc := []security.CryptoMethod{security.CryptoAES}, []security.CryptoMethod{security.CryptoAES}
	switch kind {
	case "plain":
		ca, ce = security.SecurityNever, security.SecurityNever
		cc, sc = nil, nil
	case "authed-keyless":
		ca, ce, methods = security.SecurityRequired, security.SecurityOptional, []security.AuthMethod{mCTB}
		sc = []security.CryptoMethod{security.CryptoBlowfish}
	case "keyed-unauth":
		ca, ce = security.SecurityNever, security.SecurityRequired
	}
	sa := ca
	switch kind {
	case "keyed-unauth-predicted":
		// the client wanted authentication (PREFERRED, with a common method) but the
		// server declined: nothing ran, whatever the client's own table predicted
		ca, sa, ce, methods = security.SecurityPreferred, security.SecurityNever, security.SecurityRequired, []security.AuthMethod{mCTB}
	case "plain-predicted":
		ca, sa, ce, methods = security.SecurityPreferred, security.SecurityNever, security.SecurityNever, []security.AuthMethod{mCTB}
		cc, sc = nil, nil
	}
	cache := security.NewSessionCache()
	c0 := baseCfg(ca, ce, methods, cc, false)
	s0 := baseCfg(sa, ce, methods, sc, true)
	c0.SessionCache, c0.Command = cache, 5
	r0 := hsRun(hsOpts{ClientCfg: c0, ServerCfg: s0, App: true})
	if r0.C.Err != nil || r0.S.Err != nil {
		res.Violate("C03/harness-resumed-setup/"+kind, "cannot establish: %v / %v", r0.C.Err, r0.S.Err)
		return
	}
	sid := r0.S.Neg.SessionId
	defer security.GetSessionCache().Invalidate(sid)
	sessAuthed := r0.S.Neg.Authentication
	// second connection: E has the strict policy, the peer keeps the lenient one
	c1 := baseCfg(ca, ce, methods, cc, false)
	s1 := baseCfg(sa, ce, methods, sc, true)
	c1.SessionCache, c1.Command, c1.SessionID = cache, 5, sid
	if role == "client" {
		c1.Authentication, c1.Encryption = auth, enc
	} else {
		s1.Authentication, s1.Encryption = auth, enc
	}
	r := hsRun(hsOpts{ClientCfg: c1, ServerCfg: s1, App: true})
	E := &r.C
	canary := "ping-from-client"
	wire := r.C2S
	if role == "server" {
		E, canary, wire = &r.S, "pong-from-server", r.S2C
	}
	id := fmt.Sprintf("role=%s session=%s own-auth=%s own-enc=%s", role, kind, lv(auth), lv(enc))
	if E.Err != nil {
		res.Outcome("resumed-E-refused")
		res.Nontrivial++
		return
	}
	res.Nontrivial++
	// a resumption is what the wire says it is (WasSessionResumed is only set for keyed sessions)
	onWire := false
	if len(r.C2S) > 0 && len(r.C2S[0]) > 13 {
		onWire = (&wireReader{b: r.C2S[0][13:]}).ad().str("UseSession") == "YES"
	}
	if !onWire {
		res.Outcome("resumed-not-a-resumption")
		return
	}
	key := func(k string) string { return fmt.Sprintf("C03/resumed/%s/%s/%s", k, role, kind) }
	if auth == security.SecurityRequired && !sessAuthed {
		res.Violate(key("auth-required-session-unauthenticated"), "%s: handshake succeeded by resuming a session that was never authenticated (reports Authentication=%v)", id, E.Neg.Authentication)
	}
	if enc == security.SecurityRequired && (!E.Stream.IsEncrypted() || framesContain(wire, canary)) {
		res.Violate(key("enc-required-session-plaintext"), "%s: handshake succeeded by resuming a key-less session; the stream is plaintext (IsEncrypted=%v, reports Encryption=%v)", id, E.Stream.IsEncrypted(), E.Neg.Encryption)
	}
	if E.Neg.Encryption != E.Stream.IsEncrypted() {
		res.Violate(key("enc-flag-not-real"), "%s: reports Encryption=%v, stream %v", id, E.Neg.Encryption, E.Stream.IsEncrypted())
	}
	res.Outcome("resumed-E-ok")
}
