package props

// C12 — protected frames follow the AES-GCM wire format; no nonce reuse.
// E-BFS over send histories: every history of length <= D over
// {A/B sends n in {0,1,17,5000}, A/B sends a secret, toggle crypto mode} after
// each of 4 cleartext-prefix shapes is replayed on two fresh real streams; every
// emitted frame is opened by the independent reference (refcodec), and a
// reference-built frame is fed back to the real receiver.

import (
	"bytes"
	"context"
	"encoding/binary"
	"fmt"
	"sync"

	"github.com/bbockelm/cedar/stream"

	"verif/netsim"
	"verif/refcodec"
	"verif/vlib"
)

var c12IVs sync.Map // base IV (hex) -> id of the history that first used it

type c12Side struct {
	s      *stream.Stream
	conn   *netsim.Buf
	clearD refcodec.Digest // cleartext this side sent before the key
	dir    *refcodec.Dir   // reference state of the direction this side sends
	sent   int             // protected frames sent
}

var c12Ops = []string{"A0", "A1", "A17", "A5000", "B0", "B1", "B17", "B5000", "Asec", "Bsec", "toggle"}

func c12Run(id string, prefix int, hist []int) *vlib.Result {
	ctx := context.Background()
	shape := prefix
	res := &vlib.Result{Evals: 1}
	A := &c12Side{conn: &netsim.Buf{}}
	B := &c12Side{conn: &netsim.Buf{}}
	A.s, B.s = stream.NewStream(A.conn), stream.NewStream(B.conn)
	fail := func(key, f string, a ...any) *vlib.Result {
		res.Violate("C12/"+key, "history %s: "+f, append([]any{id}, a...)...)
		return res
	}
	xfer := func(from, to *c12Side) []byte {
		w := from.conn.W
		from.conn.W = nil
		to.conn.R = append(to.conn.R, w...)
		return w
	}
	// cleartext prefix: shapes 0-3 = {A sends a message} x {B sends a two-frame message};
	// shapes 4-6 = prefixes made of zero-length frames only (A: one empty message,
	// B: three empty partial frames and an empty end frame, both) - something WAS
	// sent in the clear, so the digest is that of the frame headers, not all-zero
	if prefix >= 4 {
		if prefix == 4 || prefix == 6 {
			if err := A.s.SendMessage(ctx, nil); err != nil {
				return fail("harness", "%v", err)
			}
			A.clearD.Add(xfer(A, B))
			if _, err := B.s.ReceiveCompleteMessage(ctx); err != nil {
				return fail("harness", "%v", err)
			}
		}
		if prefix == 5 || prefix == 6 {
			for i := 0; i < 3; i++ {
				if err := B.s.SendPartialMessage(ctx, nil); err != nil {
					return fail("harness", "%v", err)
				}
			}
			if err := B.s.SendMessage(ctx, nil); err != nil {
				return fail("harness", "%v", err)
			}
			B.clearD.Add(xfer(B, A))
			if _, err := A.s.ReceiveCompleteMessage(ctx); err != nil {
				return fail("harness", "%v", err)
			}
		}
		prefix = 0
	}
	if prefix&1 != 0 {
		if err := A.s.SendMessage(ctx, []byte("c-hello")); err != nil {
			return fail("harness", "%v", err)
		}
		A.clearD.Add(xfer(A, B))
		if _, err := B.s.ReceiveCompleteMessage(ctx); err != nil {
			return fail("harness", "%v", err)
		}
	}
	if prefix&2 != 0 {
		if err := B.s.SendPartialMessage(ctx, []byte("s-hel")); err != nil {
			return fail("harness", "%v", err)
		}
		if err := B.s.SendMessage(ctx, []byte("lo")); err != nil {
			return fail("harness", "%v", err)
		}
		B.clearD.Add(xfer(B, A))
		if _, err := A.s.ReceiveCompleteMessage(ctx); err != nil {
			return fail("harness", "%v", err)
		}
	}
	if err := A.s.SetSymmetricKey(testKey); err != nil {
		return fail("harness", "%v", err)
	}
	if err := B.s.SetSymmetricKey(testKey); err != nil {
		return fail("harness", "%v", err)
	}
	A.dir, _ = refcodec.NewDir(testKey, A.clearD.Sum(), B.clearD.Sum())
	B.dir, _ = refcodec.NewDir(testKey, B.clearD.Sum(), A.clearD.Sum())
	encOn := true
	stateKey := func() string {
		return fmt.Sprintf("p%d/a%d/b%d/e%v", shape, A.sent, B.sent, encOn)
	}
	res.States = append(res.States, stateKey())
	protected := 0
	for step, op := range hist {
		name := c12Ops[op]
		if name == "toggle" {
			encOn = !encOn
			A.s.SetCryptoMode(encOn)
			B.s.SetCryptoMode(encOn)
			res.Transitions++
			res.States = append(res.States, stateKey())
			continue
		}
		from, to := A, B
		if name[0] == 'B' {
			from, to = B, A
		}
		var plain [][]byte // expected frame plaintexts
		var msg []byte
		secret := name[1:] == "sec"
		if secret {
			msg = []byte(fmt.Sprintf("s3cr3t-%d", step))
			if err := from.s.PutSecret(ctx, string(msg)); err != nil {
				return fail("send-error", "step %d %s: %v", step, name, err)
			}
			plain = [][]byte{append(append([]byte(nil), msg...), 0)}
		} else {
			n := 0
			fmt.Sscanf(name[1:], "%d", &n)
			msg = payload(step, n)
			if n == 5000 {
				from.s.StartMessage()
				if err := from.s.WriteMessage(ctx, msg); err != nil {
					return fail("send-error", "step %d %s: %v", step, name, err)
				}
				if err := from.s.EndMessage(ctx); err != nil {
					return fail("send-error", "step %d %s: %v", step, name, err)
				}
				plain = [][]byte{msg, {}}
			} else {
				if err := from.s.SendMessage(ctx, msg); err != nil {
					return fail("send-error", "step %d %s: %v", step, name, err)
				}
				plain = [][]byte{msg}
			}
		}
		wire := xfer(from, to)
		frames, rest := refcodec.ParseFrames(wire)
		if len(rest) != 0 || len(frames) != len(plain) {
			return fail("frame-count", "step %d %s: %d frames (+%d stray bytes) on the wire, reference expects %d", step, name, len(frames), len(rest), len(plain))
		}
		prot := encOn || secret
		for i, f := range frames {
			wantEnd := byte(0)
			if i == len(frames)-1 {
				wantEnd = 1
			}
			if f.End != wantEnd {
				return fail("end-flag", "step %d %s frame %d: end flag %d, expected %d", step, name, i, f.End, wantEnd)
			}
			if !prot {
				if !bytes.Equal(f.Body, plain[i]) {
					return fail("clear-frame", "step %d %s: cleartext frame body differs", step, name)
				}
				continue
			}
			protected++
			hadIV := from.dir.HaveIV
			pt, err := from.dir.Open(f)
			if err != nil {
				return fail(fmt.Sprintf("ref-cannot-open/first=%v", !hadIV), "step %d %s frame %d (protected frame #%d of its direction, prefix shape %d): reference decryptor: %v", step, name, i, from.sent, prefix, err)
			}
			if !bytes.Equal(pt, plain[i]) {
				return fail("ref-plaintext", "step %d %s frame %d: reference plaintext differs", step, name, i)
			}
			wantLen := len(plain[i]) + 16
			if !hadIV {
				wantLen += 16
			}
			if int(f.Len) != wantLen {
				return fail("frame-length", "step %d %s frame %d: wire length %d, format says %d (IV exactly once)", step, name, i, f.Len, wantLen)
			}
			from.sent++
		}
		// the real peer must decode it too
		var got []byte
		var err error
		if secret {
			var s string
			s, err = to.s.GetSecret(ctx)
			got = []byte(s)
		} else {
			got, err = to.s.ReceiveCompleteMessage(ctx)
		}
		if err != nil || !bytes.Equal(got, msg) {
			return fail("peer-decode", "step %d %s: real peer failed to decode (%v)", step, name, err)
		}
		res.Transitions++
		res.States = append(res.States, stateKey())
	}
	// nonce uniqueness per direction, IV distinctness
	for _, sd := range []*c12Side{A, B} {
		for n, c := range sd.dir.Nonces {
			if c > 1 {
				return fail("nonce-reuse", "nonce %x used %d times in one direction", n, c)
			}
		}
	}
	if A.dir.HaveIV && B.dir.HaveIV && A.dir.BaseIV == B.dir.BaseIV {
		return fail("iv-equal-directions", "both directions use base IV %x", A.dir.BaseIV)
	}
	for _, sd := range []*c12Side{A, B} {
		if sd.dir.HaveIV {
			k := fmt.Sprintf("%x", sd.dir.BaseIV)
			if prev, loaded := c12IVs.LoadOrStore(k, id); loaded && prev.(string) != id {
				return fail("iv-reused-across-sessions", "base IV %s already used by session %s", k, prev)
			}
		}
	}
	// reference-built frame continuing A's direction must be accepted by real B
	if !encOn {
		A.s.SetCryptoMode(true)
		B.s.SetCryptoMode(true)
	}
	if !A.dir.HaveIV {
		copy(A.dir.BaseIV[:], []byte("reference-iv-16b"))
	}
	refMsg := []byte("built-by-reference")
	B.conn.R = append(B.conn.R, A.dir.Seal(0, refMsg[:5])...)
	B.conn.R = append(B.conn.R, A.dir.Seal(1, refMsg[5:])...)
	got, err := B.s.ReceiveCompleteMessage(ctx)
	if err != nil || !bytes.Equal(got, refMsg) {
		return fail("real-rejects-ref-frame", "real receiver rejected frames built by the reference after %d real frames: %v", A.sent, err)
	}
	if protected > 0 {
		res.Nontrivial = 1
	}
	res.Outcome(fmt.Sprintf("ok-protected-frames=%d", min(protected, 6)))
	return res
}

// c12CounterEdge: import a live state with the send counter patched near 2^32.
func c12CounterEdge(start uint32) *vlib.Result {
	ctx := context.Background()
	res := &vlib.Result{Evals: 1, Nontrivial: 1}
	A := &c12Side{conn: &netsim.Buf{}}
	B := &c12Side{conn: &netsim.Buf{}}
	A.s, B.s = stream.NewStream(A.conn), stream.NewStream(B.conn)
	_ = A.s.SetSymmetricKey(testKey)
	_ = B.s.SetSymmetricKey(testKey)
	_ = A.s.SendMessage(ctx, []byte("x"))
	first := A.conn.W
	B.conn.R, A.conn.W = first, nil
	if _, err := B.s.ReceiveCompleteMessage(ctx); err != nil {
		res.Violate("C12/harness", "%v", err)
		return res
	}
	_ = B.s.SendMessage(ctx, []byte("y"))
	A.conn.R, B.conn.W = B.conn.W, nil
	if _, err := A.s.ReceiveCompleteMessage(ctx); err != nil {
		res.Violate("C12/harness", "%v", err)
		return res
	}
	blob, err := A.s.ExportCryptoState()
	if err != nil {
		res.Violate("C12/harness", "export: %v", err)
		return res
	}
	const ctrOff = 4 + 2 + 1 + 32 + 16 + 16
	binary.BigEndian.PutUint32(blob[ctrOff:], start)
	nc := &netsim.Buf{}
	ns, err := stream.NewStreamWithCryptoState(nc, blob)
	if err != nil {
		res.Violate("C12/harness", "import: %v", err)
		return res
	}
	fr, _ := refcodec.ParseFrames(first)
	dir, _ := refcodec.NewDir(testKey, [32]byte{}, [32]byte{})
	if _, err := dir.Open(fr[0]); err != nil {
		res.Violate("C12/harness", "ref open: %v", err)
		return res
	}
	dir.Counter = start
	sentOK := 0
	refusedAt := -1
	for i := 0; i < 12; i++ {
		err := ns.SendMessage(ctx, []byte{byte(i)})
		if err != nil {
			// a refusal must be permanent: the counter has nowhere left to go
			if refusedAt < 0 {
				refusedAt = i
			}
			if len(nc.W) != 0 {
				if fr, _ := refcodec.ParseFrames(nc.W); len(fr) > 0 {
					res.Violate("C12/counter-edge/frame-with-refusal", "send %d refused (%v) yet %d frame(s) reached the connection", i, err, len(fr))
				}
				nc.W = nil
			}
			continue
		}
		if refusedAt >= 0 {
			res.Violate("C12/counter-edge/sent-after-refusal", "started at %d: send %d was refused at the counter limit, yet send %d went out afterwards - the counter wrapped and the nonce sequence restarts under the same key", start, refusedAt, i)
			return res
		}
		sentOK++
		frames, _ := refcodec.ParseFrames(nc.W)
		nc.W = nil
		if len(frames) != 1 {
			res.Violate("C12/counter-edge/frames", "expected 1 frame")
			return res
		}
		if dir.Counter == 0xffffffff || dir.Counter < start {
			res.Violate("C12/counter-edge/wrapped", "stream sent a frame with its counter at %d (started %d): it must refuse before wrapping", dir.Counter, start)
			return res
		}
		if _, err := dir.Open(frames[0]); err != nil {
			res.Violate("C12/counter-edge/ref-cannot-open", "frame at counter %d: %v", dir.Counter, err)
			return res
		}
	}
	want := int(0xffffffff - start)
	if sentOK != want {
		res.Violate("C12/counter-edge/refusal-point", "started at %d: %d frames sent before refusal, format allows exactly %d", start, sentOK, want)
	}
	for n, c := range dir.Nonces {
		if c > 1 {
			res.Violate("C12/nonce-reuse", "nonce %x used %d times near the counter limit", n, c)
		}
	}
	res.Outcome(fmt.Sprintf("counter-edge-sent=%d", sentOK))
	return res
}

// c12IVWrap: a reference sender whose random base IV happens to start with a word close
// to 2^32 sends 24 frames; the nonce word is base word + counter modulo 2^32 (only the
// frame COUNTER must never wrap), so the real receiver must accept every one of them.
func c12IVWrap(word uint32) *vlib.Result {
	ctx := context.Background()
	res := &vlib.Result{Evals: 1, Nontrivial: 1}
	rb := &netsim.Buf{}
	r := stream.NewStream(rb)
	_ = r.SetSymmetricKey(testKey)
	dir, _ := refcodec.NewDir(testKey, [32]byte{}, [32]byte{})
	copy(dir.BaseIV[:], []byte("reference-iv-16b"))
	binary.BigEndian.PutUint32(dir.BaseIV[:4], word)
	for i := 0; i < 24; i++ {
		msg := []byte(fmt.Sprintf("frame-%02d-from-the-reference-sender", i))
		rb.R = append(rb.R, dir.Seal(1, msg)...)
		got, err := r.ReceiveCompleteMessage(ctx)
		if err != nil || !bytes.Equal(got, msg) {
			res.Violate("C12/real-rejects-ref-frame/base-iv-word-wraps", "base IV leading word %#x: frame %d (nonce word %#x) built by the reference sender was not accepted: %v", word, i, word+uint32(i), err)
			return res
		}
	}
	res.Outcome("iv-word-wrap-accepted")
	return res
}

// c12Rekey: a second protected session on the SAME Stream (SetSymmetricKey called again,
// with the same key - what re-applying a cached session does - or another one). The new
// session must start with a fresh base IV; no (key, nonce) pair of the first may recur.
func c12Rekey(sameKey bool) *vlib.Result {
	ctx := context.Background()
	res := &vlib.Result{Evals: 1, Nontrivial: 1}
	b := &netsim.Buf{}
	s := stream.NewStream(b)
	k2 := testKey
	if !sameKey {
		k2 = append([]byte(nil), testKey...)
		k2[0] ^= 0xff
	}
	type seen struct {
		iv [16]byte
		n  map[string]int
	}
	var sess []seen
	for i, k := range [][]byte{testKey, k2, testKey} {
		if err := s.SetSymmetricKey(k); err != nil {
			res.Violate("C12/harness", "SetSymmetricKey #%d: %v", i, err)
			return res
		}
		for j := 0; j < 3; j++ {
			if err := s.SendMessage(ctx, []byte(fmt.Sprintf("session-%d-message-%d", i, j))); err != nil {
				res.Violate("C12/rekey/send-error", "session %d message %d: %v", i, j, err)
				return res
			}
		}
		frames, _ := refcodec.ParseFrames(b.W)
		b.W = nil
		dir, _ := refcodec.NewDir(k, [32]byte{}, [32]byte{})
		for fi, f := range frames {
			if _, err := dir.Open(f); err != nil {
				res.Violate("C12/rekey/ref-cannot-open", "session %d frame %d after re-keying: %v (a new session sends its base IV with its first frame)", i, fi, err)
				return res
			}
		}
		cur := seen{iv: dir.BaseIV, n: map[string]int{}}
		for n, c := range dir.Nonces {
			cur.n[string(k)+"/"+string(n[:])] = c
		}
		for pi, prev := range sess {
			if prev.iv == cur.iv {
				res.Violate("C12/rekey/base-iv-reused", "session %d on the same stream starts with the base IV of session %d", i, pi)
			}
			for kn := range cur.n {
				if prev.n[kn] > 0 {
					res.Violate("C12/nonce-reuse/rekey", "a (key, nonce) pair of session %d is used again in session %d of the same stream", pi, i)
					return res
				}
			}
		}
		sess = append(sess, cur)
	}
	res.Outcome("rekey-ok")
	return res
}

func C12Plan() *vlib.Plan {
	p := &vlib.Plan{
		Property: "C12", Level: "model_checking",
		Rule:   "E-BFS over send histories: all sequences of length <= D over 11 operations (A/B sends 0/1/17/5000 bytes, A/B sends a secret, toggle crypto mode) x 7 cleartext-prefix shapes (none / A / B / both send a message; A / B / both send only zero-length frames), each replayed on two fresh real streams; state = (prefix shape, protected frames sent per direction, crypto mode). Every protected frame is opened by the independent reference decryptor (nonce = base IV word0 + counter, AAD = header / digests||header on the first frame), IVs compared across directions and all sessions of the run, reference-built frames fed to the real receiver; counter edge through imported state; a reference sender whose base IV leading word is 0 / 1 / 2^31-1 / 2^31 / 2^32-16 / 2^32-2 / 2^32-1 sends 24 frames to the real receiver (the nonce word wraps, the counter does not); three successive sessions on one Stream (re-keyed with the same key / another key): fresh base IV each time, no (key, nonce) pair twice; send histories over a transport whose 2nd..4th write delivers only 0 / 1 / 5 / 6 / 21 / 40 / all-but-one bytes and fails, the application sending on: the frame after the torn one is never sealed under the torn frame's nonce; raw sends of 1 MiB-40 .. 1 MiB+1 bytes (some refused as over the frame limit) first / in the middle of a sequence: what IS emitted opens as one gap-free sequence. Non-trivial = history emitted >= 1 protected frame.",
		Assume: []string{"reference decryptor written from the property text (refcodec), uses Go's AES-GCM primitive", "IV randomness is judged only by distinctness over all sessions of the run"},
	}
	p.Gen = func(tier string, yield func(vlib.Case)) {
		D := 4
		if tier == "thorough" {
			D = 5
		}
		p.Bounds = map[string]any{"history_depth": D, "ops": c12Ops, "prefix_shapes": 7}
		for prefix := 0; prefix < 7; prefix++ {
			var rec func(h []int)
			rec = func(h []int) {
				hh := append([]int(nil), h...)
				id := fmt.Sprintf("p%d/%v", prefix, hh)
				pf := prefix
				yield(vlib.Case{ID: id, Run: func() *vlib.Result {
					r := c12Run(id, pf, hh)
					names := make([]string, len(hh))
					for i, o := range hh {
						names[i] = c12Ops[o]
					}
					r.Sample = map[string]any{"prefix_shape": pf, "history": names}
					return r
				}})
				if len(h) == D {
					return
				}
				for op := range c12Ops {
					rec(append(h, op))
				}
			}
			rec(nil)
		}
		c12FaultCases(tier, yield)
		for _, same := range []bool{true, false} {
			same := same
			yield(vlib.Case{ID: fmt.Sprintf("rekey/same-key=%v", same), Run: func() *vlib.Result { return c12Rekey(same) }})
		}
		for _, wd := range []uint32{0, 1, 0x7fffffff, 0x80000000, 0xfffffff0, 0xfffffffe, 0xffffffff} {
			wd := wd
			yield(vlib.Case{ID: fmt.Sprintf("ref-sender-base-iv-word/%#x", wd), Run: func() *vlib.Result { return c12IVWrap(wd) }})
		}
		for _, st := range []uint32{0xffffffff - 3, 0xffffffff - 1, 0xffffffff, 0xfffffff0 + 8} {
			st := st
			yield(vlib.Case{ID: fmt.Sprintf("counter-edge/%d", st), Run: func() *vlib.Result { return c12CounterEdge(st) }})
		}
	}
	return p
}
