package props

// C06, late import: the server registers a claim session from a claim id whose embedded
// deadline (SessionExpires) is at various distances from now - long past, just past, in
// the future, absent - and with / without the importer's fallback duration. A requester
// holding the right id and key then asks for a resumption: the server resumes exactly the
// sessions whose deadline has not passed.

import (
	"fmt"
	"regexp"
	"time"

	"github.com/bbockelm/cedar/security"

	"verif/vlib"
)

var c06ExpRE = regexp.MustCompile(`SessionExpires=[0-9]+;`)

func c06LateImport(res *vlib.Result, off int, fallback time.Duration, importTwice bool) {
	res.Evals++
	const srv = "<" + hsServerAddr + ">"
	id := fmt.Sprintf("deadline=now%+ds fallback=%v import-twice=%v", off, fallback, importTwice)
	// a minter elsewhere (the peer daemon) creates the claim; lifetime long enough to be live.
	// (Its id must not collide with sessions other cases of this check leave in the package-global
	// cache - a server with a cache of its own falls back to the global one: own sequence number,
	// and the global cache is emptied first.)
	security.ClearSessionCache()
	M := security.NewSessionCache()
	mc, err := security.MintClaimSession(M, security.MintClaimOptions{Sinful: srv, Birthdate: 1700000000, SequenceNum: 7700 + res.Evals, Lifetime: time.Hour, ValidCommands: []int{5}})
	if err != nil {
		res.Violate("C06/harness-establish", "mint: %v", err)
		return
	}
	claim := mc.ClaimID()
	if !c06ExpRE.MatchString(claim) {
		res.Violate("C06/harness-establish", "minted claim id carries no SessionExpires: %q", mc.PublicClaimID())
		return
	}
	late := claim
	switch {
	case off == 0: // no deadline in the claim at all
		late = c06ExpRE.ReplaceAllString(claim, "")
	default:
		late = c06ExpRE.ReplaceAllString(claim, fmt.Sprintf("SessionExpires=%d;", time.Now().Unix()+int64(off)))
	}
	srvCache := security.NewSessionCache()
	opts := security.ClaimSessionOptions{PeerAddr: "<10.9.9.9:7777>", Duration: fallback}
	sid, err := security.ImportClaimSession(srvCache, late, opts)
	if err == nil && importTwice {
		sid, err = security.ImportClaimSession(srvCache, late, opts)
	}
	if err != nil {
		if off >= 60 || off == 0 {
			res.Violate("C06/late-import/live-claim-refused", "%s: %v", id, err)
		}
		res.Outcome("late-import-refused")
		return
	}
	res.Nontrivial++
	// the requester: holds the intact claim (its own copy says the session is live)
	cli := security.NewSessionCache()
	if csid, err := security.ImportClaimSession(cli, claim, security.ClaimSessionOptions{PeerAddr: srv}); err != nil || csid != sid {
		res.Violate("C06/harness-establish", "%s: requester import %v (%q vs %q)", id, err, csid, sid)
		return
	}
	cc := baseCfg(security.SecurityOptional, security.SecurityOptional, nil, []security.CryptoMethod{security.CryptoAES}, false)
	cc.SessionCache, cc.SessionID, cc.Command = cli, sid, 5
	sc := baseCfg(security.SecurityOptional, security.SecurityOptional, nil, []security.CryptoMethod{security.CryptoAES}, true)
	sc.SessionCache = srvCache
	r := hsRun(hsOpts{ClientCfg: cc, ServerCfg: sc, App: true})
	res.Transitions++
	resumed := r.S.Err == nil && r.S.Resumed
	dead := off < -60               // deadline clearly passed
	live := off >= 60 || (off == 0) // deadline clearly ahead, or none (fallback or unlimited)
	switch {
	case dead && (resumed || len(r.S.AppGot) > 0):
		res.Violate("C06/resumed-dead-session/late-import", "%s: the claim's deadline passed %d s ago, yet the server resumed the session (application data accepted: %q)", id, -off, trunc(r.S.AppGot))
	case live && !resumed:
		res.Violate("C06/late-import/live-session-not-resumed", "%s: client %s server %s", id, errStr(r.C.Err), errStr(r.S.Err))
	}
	if e, ok := srvCache.LookupNonExpired(sid); ok && dead {
		res.Violate("C06/resumed-dead-session/late-import-entry-live", "%s: the server's cache reports the session live (expiration %v)", id, e.Expiration())
	}
	res.Outcome(fmt.Sprintf("late-import-resumed=%v", resumed))
}

func c06LateCases(yield func(vlib.Case)) {
	yield(vlib.Case{ID: "late-import", Run: func() *vlib.Result {
		res := &vlib.Result{}
		for _, off := range []int{-20 * 365 * 86400, -86400, -3600, -120, 120, 3600, 0} { // absolute deadlines stay positive unix times (<= 0 means "none")
			for _, fb := range []time.Duration{0, time.Hour} {
				for _, twice := range []bool{false, true} {
					c06LateImport(res, off, fb, twice)
				}
			}
		}
		return res
	}})
}

// c06StatusKept: "a successful resumption leaves both sides with ... the identity and
// authentication status the original handshake established" - for sessions in which
// authentication did NOT run although both sides list a common method (levels OPTIONAL /
// PREFERRED-vs-NEVER / NEVER), and for authenticated ones, resumed through the real client.
func c06StatusKept(res *vlib.Result, ca, sa security.SecurityLevel, methods []security.AuthMethod) {
	res.Evals++
	id := fmt.Sprintf("client auth %s, server auth %s, methods %v", lv(ca), lv(sa), methods)
	security.ClearSessionCache()
	cache := security.NewSessionCache()
	mk := func() (*security.SecurityConfig, *security.SecurityConfig) {
		cc := baseCfg(ca, security.SecurityRequired, methods, []security.CryptoMethod{security.CryptoAES}, false)
		sc := baseCfg(sa, security.SecurityRequired, methods, []security.CryptoMethod{security.CryptoAES}, true)
		cc.SessionCache, cc.Command = cache, 5
		return cc, sc
	}
	cc, sc := mk()
	r0 := hsRun(hsOpts{ClientCfg: cc, ServerCfg: sc, App: true})
	if r0.C.Err != nil || r0.S.Err != nil {
		res.Outcome("status-kept-setup-refused")
		return
	}
	defer security.GetSessionCache().Invalidate(r0.S.Neg.SessionId)
	cc, sc = mk()
	r := hsRun(hsOpts{ClientCfg: cc, ServerCfg: sc, App: true})
	res.Transitions += 2
	if r.C.Err != nil || r.S.Err != nil || !r.C.Resumed || !r.S.Resumed {
		res.Outcome("status-kept-not-resumed")
		return
	}
	res.Nontrivial++
	for _, side := range []struct {
		name     string
		was, now *security.SecurityNegotiation
	}{{"server", r0.S.Neg, r.S.Neg}, {"client", r0.C.Neg, r.C.Neg}} {
		if side.was.Authentication != side.now.Authentication {
			res.Violate("C06/resumed-status-differs/authentication/"+side.name, "%s: the original handshake ended with Authentication=%v on the %s; the resumed connection reports %v", id, side.was.Authentication, side.name, side.now.Authentication)
		}
		if side.name == "server" && side.was.User != side.now.User {
			res.Violate("C06/resumed-status-differs/identity", "%s: identity %q became %q", id, side.was.User, side.now.User)
		}
		if side.was.Encryption != side.now.Encryption {
			res.Violate("C06/resumed-status-differs/encryption/"+side.name, "%s: Encryption %v became %v", id, side.was.Encryption, side.now.Encryption)
		}
	}
	res.Outcome(fmt.Sprintf("status-kept-authenticated=%v", r.S.Neg.Authentication))
}

func c06StatusCases(yield func(vlib.Case)) {
	yield(vlib.Case{ID: "inherited-items", Run: func() *vlib.Result {
		res := &vlib.Result{}
		c06InheritedKeyless(res)
		return res
	}})
	yield(vlib.Case{ID: "resumed-status", Run: func() *vlib.Result {
		res := &vlib.Result{}
		for _, ms := range [][]security.AuthMethod{{mCTB}, {mTOK, mCTB}, {security.AuthFS, mCTB}} {
			for _, ca := range c10Levels {
				for _, sa := range c10Levels {
					c06StatusKept(res, ca, sa, ms)
				}
			}
		}
		return res
	}})
}

// c06InheritedKeyless: sessions handed down by a parent daemon (CONDOR_PRIVATE_INHERIT items).
// An item without key material - or with a key of every short length - either is not registered
// at all, or yields a session that a requester who knows only the identifier cannot resume:
// "a session without a key is never resumed".
func c06InheritedKeyless(res *vlib.Result) {
	info := `[CryptoMethods="AESGCM";Encryption="YES";ValidCommands="5";]`
	for _, kind := range []string{"SessionKey", "FamilySessionKey"} {
		for _, key := range []string{"", "k", "0123456789abcdef0123456789abcdef"} {
			res.Evals++
			sid := fmt.Sprintf("inh-%s-%d", kind, len(key))
			item := fmt.Sprintf("%s:%s#%s#%s", kind, sid, info, key)
			id := fmt.Sprintf("inherited item %s with a %d-byte key", kind, len(key))
			sessions := security.ParseCondorPrivateInherit(item)
			srvCache := security.NewSessionCache()
			registered := 0
			for _, s := range sessions {
				e, err := security.CreateNonNegotiatedSession(s, "<10.7.7.7:9618>")
				if err != nil || e == nil {
					continue
				}
				srvCache.Store(e)
				registered++
			}
			if registered == 0 {
				if key != "" {
					res.Violate("C06/inherited/keyed-item-not-registered", "%s: not registered", id)
				}
				res.Outcome("inherited-item-refused")
				continue
			}
			res.Nontrivial++
			// a requester that knows only the identifier
			obs := &c06Obs{}
			sc := baseCfg(security.SecurityOptional, security.SecurityOptional, nil, []security.CryptoMethod{security.CryptoAES}, true)
			sc.SessionCache = srvCache
			r := hsRun(hsOpts{ServerCfg: sc, App: true, ClientScript: c06Requester(c06Req{sid: sid, keyKind: "none", reply: true, addr: hsClientAddr, label: "inherited"}, obs)})
			res.Transitions++
			if key == "" && r.S.Err == nil && r.S.Resumed {
				res.Violate("C06/resumed-keyless-session/inherited-item-without-key", "%s: the item was registered and the session resumed for a requester that knows only its identifier (identity %q, application data accepted: %q)", id, r.S.Neg.User, trunc(r.S.AppGot))
			}
			if len(r.S.AppGot) > 0 {
				res.Violate("C06/app-data-accepted/requester-without-key/inherited", "%s: server accepted %q from a requester without the key", id, trunc(r.S.AppGot))
			}
			res.Outcome(fmt.Sprintf("inherited-item-registered-key=%d", len(key)))
		}
	}
}
