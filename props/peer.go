package props

// Scripted peer: a small independent implementation of both sides of the
// DC_AUTHENTICATE exchange (negotiation ads, bitmask loop, CLAIMTOBE, key
// exchange message, ECDH + HKDF, post-auth ad, resumption request/reply) built
// on refcodec framing only — it never calls cedar's stream/message/security
// code. It has deviation knobs and keeps a log of what actually happened on
// the wire, so it doubles as the witness for the C03/C05/C06 oracles.

import (
	"encoding/json"
	"crypto/hmac"
	"crypto/ecdh"
	"crypto/rand"
	"crypto/sha256"
	"encoding/base64"
	"encoding/binary"
	"fmt"
	"io"
	"sort"
	"strconv"
	"strings"

	"golang.org/x/crypto/hkdf"

	"verif/netsim"
	"verif/refcodec"
)

const dcAuthenticate = 60010

type peerConn struct {
	end           *netsim.End
	sentD         refcodec.Digest // cleartext this peer sent
	recvD         refcodec.Digest // cleartext this peer received
	sendDir       *refcodec.Dir
	recvDir       *refcodec.Dir
	key           []byte
	encOn         bool
	rbuf          []byte
	Log           []string
	ClearIn       [][]byte // cleartext message payloads received
	ProtIn        int      // protected frames successfully opened
	PlainAfterKey [][]byte // frames received in clear after the key was installed
}

func (p *peerConn) logf(f string, a ...any) { p.Log = append(p.Log, fmt.Sprintf(f, a...)) }

func (p *peerConn) readN(n int) ([]byte, error) {
	for len(p.rbuf) < n {
		b := make([]byte, 65536)
		k, err := p.end.Read(b)
		if k > 0 {
			p.rbuf = append(p.rbuf, b[:k]...)
		}
		if err != nil && len(p.rbuf) < n {
			return nil, err
		}
	}
	out := p.rbuf[:n]
	p.rbuf = p.rbuf[n:]
	return out, nil
}

// enableCrypto installs the session key: from now on frames are protected.
func (p *peerConn) enableCrypto(key []byte) {
	p.key = key
	p.sendDir, _ = refcodec.NewDir(key, p.sentD.Sum(), p.recvD.Sum())
	p.recvDir, _ = refcodec.NewDir(key, p.recvD.Sum(), p.sentD.Sum())
	_, _ = rand.Read(p.sendDir.BaseIV[:])
	p.encOn = true
}

// sendMsg sends one message as a single frame (protected when crypto is on,
// unless forceClear).
func (p *peerConn) sendMsg(payload []byte, forceClear bool) error {
	var fr []byte
	if p.encOn && !forceClear {
		fr = p.sendDir.Seal(1, payload)
	} else {
		fr = refcodec.MkFrame(1, payload)
		if !p.encOn {
			p.sentD.Add(fr)
		}
	}
	_, err := p.end.Write(fr)
	return err
}

// recvMsg reads frames up to an end flag and returns the message payload.
func (p *peerConn) recvMsg() ([]byte, error) {
	var msg []byte
	for i := 0; i < 64; i++ {
		h, err := p.readN(5)
		if err != nil {
			return nil, err
		}
		n := int(binary.BigEndian.Uint32(h[1:5]))
		if n > 2<<20 {
			return nil, fmt.Errorf("peer: frame too large %d", n)
		}
		hdr := append([]byte(nil), h...)
		body, err := p.readN(n)
		if err != nil {
			return nil, err
		}
		body = append([]byte(nil), body...)
		f := refcodec.Frame{End: hdr[0], Len: uint32(n), Body: body}
		if p.encOn {
			hadIV, iv := p.recvDir.HaveIV, p.recvDir.BaseIV
			pt, err := p.recvDir.Open(f)
			if err != nil {
				p.recvDir.HaveIV, p.recvDir.BaseIV = hadIV, iv
				// not protected under our key: record as plaintext-after-key
				p.PlainAfterKey = append(p.PlainAfterKey, append(hdr, body...))
				p.logf("recv: frame after key does not open under the session key (len %d)", n)
				msg = append(msg, body...)
			} else {
				p.ProtIn++
				msg = append(msg, pt...)
			}
		} else {
			p.recvD.Add(append(hdr, body...))
			msg = append(msg, body...)
		}
		if hdr[0] != 0 {
			if msg == nil {
				msg = []byte{}
			}
			if !p.encOn {
				p.ClearIn = append(p.ClearIn, msg)
			}
			return msg, nil
		}
	}
	return nil, fmt.Errorf("peer: message without end")
}

// ---- minimal ClassAd wire codec ----

type wireAd struct {
	Attrs map[string]string // raw value text
	Order []string
}

func newWireAd() *wireAd { return &wireAd{Attrs: map[string]string{}} }

func (a *wireAd) set(k, rawValue string) *wireAd {
	if _, ok := a.Attrs[k]; !ok {
		a.Order = append(a.Order, k)
	}
	a.Attrs[k] = rawValue
	return a
}
func (a *wireAd) setS(k, v string) *wireAd     { return a.set(k, strconv.Quote(v)) }
func (a *wireAd) setI(k string, v int) *wireAd { return a.set(k, strconv.Itoa(v)) }

// str returns the unquoted string value of an attribute ("" if absent).
func (a *wireAd) str(k string) string {
	for name, v := range a.Attrs {
		if strings.EqualFold(name, k) {
			if u, err := strconv.Unquote(v); err == nil {
				return u
			}
			return v
		}
	}
	return ""
}

func (a *wireAd) has(k string) bool {
	for name := range a.Attrs {
		if strings.EqualFold(name, k) {
			return true
		}
	}
	return false
}

func (a *wireAd) encode(encrypted bool) []byte {
	out := refcodec.EncInt(int64(len(a.Order)))
	for _, k := range a.Order {
		out = append(out, refcodec.EncString(k+" = "+a.Attrs[k], encrypted)...)
	}
	out = append(out, refcodec.EncString("", encrypted)...)
	out = append(out, refcodec.EncString("", encrypted)...)
	return out
}

type wireReader struct {
	b   []byte
	enc bool
	err error
}

func (r *wireReader) int() int64 {
	if r.err != nil || len(r.b) < 8 {
		r.err = io.ErrUnexpectedEOF
		return 0
	}
	v := int64(binary.BigEndian.Uint64(r.b[:8]))
	r.b = r.b[8:]
	return v
}

func (r *wireReader) str() string {
	if r.err != nil {
		return ""
	}
	if r.enc {
		n := int(r.int())
		if r.err != nil || n < 0 || n > len(r.b) {
			r.err = io.ErrUnexpectedEOF
			return ""
		}
		s := r.b[:n]
		r.b = r.b[n:]
		if len(s) > 0 && s[len(s)-1] == 0 {
			s = s[:len(s)-1]
		}
		return string(s)
	}
	i := 0
	for i < len(r.b) && r.b[i] != 0 {
		i++
	}
	s := string(r.b[:i])
	if i < len(r.b) {
		i++
	}
	r.b = r.b[i:]
	return s
}

func (r *wireReader) ad() *wireAd {
	n := int(r.int())
	a := newWireAd()
	for i := 0; i < n && r.err == nil; i++ {
		e := r.str()
		eq := strings.Index(e, "=")
		if eq < 0 {
			continue
		}
		a.set(strings.TrimSpace(e[:eq]), strings.TrimSpace(e[eq+1:]))
	}
	r.str()
	r.str()
	return a
}

// ---- ECDH / key derivation (independent) ----

type peerKeys struct {
	priv   *ecdh.PrivateKey
	pubB64 string
}

func newPeerKeys() *peerKeys {
	k, _ := ecdh.P256().GenerateKey(rand.Reader)
	return &peerKeys{priv: k, pubB64: base64.StdEncoding.EncodeToString(k.PublicKey().Bytes())}
}

func (k *peerKeys) derive(peerB64 string) ([]byte, error) {
	raw, err := base64.StdEncoding.DecodeString(peerB64)
	if err != nil {
		return nil, err
	}
	pk, err := ecdh.P256().NewPublicKey(raw)
	if err != nil {
		return nil, err
	}
	ss, err := k.priv.ECDH(pk)
	if err != nil {
		return nil, err
	}
	out := make([]byte, 32)
	_, err = io.ReadFull(hkdf.New(sha256.New, ss, []byte("htcondor"), []byte("keygen")), out)
	return out, err
}

// ---- scripted server ----

type peerDev struct {
	AuthAnswer    string // "YES" / "NO" / "" (= follow honest table)
	EncAnswer     string
	ECDH          string // "", "omit", "truncate", "random65", "notb64"
	NoCipher      bool   // advertise no common cipher
	Select        string // "", "unoffered", "several", "zero", "all-offered", "all-offered-then-proceed", "fs-repeat" (FILESYSTEM in every round, each exchange answered "failed")
	FSHook        func(round int, path string, clientResult int64) // fs-repeat: called when the client's answer for a round has arrived
	Denied        bool   // complete sub-protocol, then post-auth ReturnCode DENIED
	PostAuthClear bool   // send the post-auth ad in the clear
	// the post-auth ad carries one attribute as in-band secret (marker item + secret
	// item), as an HTCondor peer may do for a private attribute
	PostAuthSecret bool
	// client role
	SkipBitmask                   bool
	BitmaskOutside                bool
	ClaimLevelAuth, ClaimLevelEnc string // levels the scripted client advertises
	Methods                       string
	// scripted TOKEN (AKEP2) client
	Token     string // full header.payload.signature token the scripted client holds
	TokClaim  string // identity claimed in steps 1 and 3 ("" = the token's sub, or "nobody@nowhere")
	TokProof  string // "" honest; "empty", "wrong", "for-other-id" (proof computed over another identity than claimed)
	TokRBEcho string // "" honest; "empty", "wrong"
	TokTrail  bool   // step 3 carries a trailing byte
	TokStep1  string // "" honest; "no-eom-then-bad-header": step 1 goes out in a frame that is NOT marked end-of-message, followed by a bare header with an invalid end flag, and the client stops there; "no-eom-then-close": ... followed by a close
}

type peerOutcome struct {
	AuthExchangeCompleted          bool // a full CLAIMTOBE exchange ran
	MethodRun                      string
	KeyAgreed                      bool
	Key                            []byte
	EHandshakeDoneSeen             bool
	AppFromE                       []byte // application message received from E after the handshake
	AppFromEProtected              bool
	AppErr                         error
	TokServerProofOK               bool // the server's step-2 proof verified under the key derived from the token
	TokStep2Status                 int64
	ClientAd, ServerAd, PostAuthAd *wireAd
	Log                            []string
	Canary                         string
	Sid                            string
}

var methodBits = map[string]int{"CLAIMTOBE": 2, "FS": 4, "KERBEROS": 64, "SSL": 256, "PASSWORD": 512, "TOKEN": 2048, "SCITOKENS": 4096}

// scriptedServer plays the server against a real cedar client.
func scriptedServer(dev peerDev, out *peerOutcome) func(*netsim.End) error {
	return func(end *netsim.End) error {
		p := &peerConn{end: end}
		defer func() { out.Log = p.Log }()
		m, err := p.recvMsg()
		if err != nil {
			return err
		}
		r := &wireReader{b: m}
		if cmd := r.int(); cmd != dcAuthenticate {
			return fmt.Errorf("peer: expected DC_AUTHENTICATE, got %d", cmd)
		}
		cad := r.ad()
		out.ClientAd = cad
		if r.err != nil {
			return r.err
		}
		clientMethods := strings.Split(cad.str("AuthMethods"), ",")
		cAuth, cEnc := cad.str("Authentication"), cad.str("Encryption")
		keys := newPeerKeys()
		sad := newWireAd()
		// honest decision (server is permissive: OPTIONAL/OPTIONAL with CLAIMTOBE)
		auth := "NO"
		if cAuth == "REQUIRED" || cAuth == "PREFERRED" {
			auth = "YES"
		}
		enc := "NO"
		if cEnc == "REQUIRED" || cEnc == "PREFERRED" {
			enc = "YES"
		}
		if dev.AuthAnswer != "" {
			auth = dev.AuthAnswer
		}
		if dev.EncAnswer != "" {
			enc = dev.EncAnswer
		}
		method := "CLAIMTOBE"
		sad.setS("AuthMethods", method).setS("AuthMethodsList", "CLAIMTOBE,TOKEN,FS")
		if dev.NoCipher {
			sad.setS("CryptoMethods", "BLOWFISH").setS("CryptoMethodsList", "BLOWFISH")
		} else {
			sad.setS("CryptoMethods", "AES").setS("CryptoMethodsList", "AES")
		}
		sad.setS("Authentication", auth).setS("Encryption", enc).setS("Integrity", "NO")
		sad.setS("RemoteVersion", "$CondorVersion: 25.4.0 2025-10-31 BuildID: 1 $")
		switch dev.ECDH {
		case "":
			sad.setS("ECDHPublicKey", keys.pubB64)
		case "truncate":
			sad.setS("ECDHPublicKey", keys.pubB64[:40])
		case "random65":
			b := make([]byte, 65)
			_, _ = rand.Read(b)
			b[0] = 4
			sad.setS("ECDHPublicKey", base64.StdEncoding.EncodeToString(b))
		case "notb64":
			sad.setS("ECDHPublicKey", "!!!not*base64!!!")
		}
		sad.set("NegotiatedSession", "true").setS("Enact", "YES")
		out.ServerAd = sad
		if err := p.sendMsg(sad.encode(false), false); err != nil {
			return err
		}
		if auth == "YES" {
			for round := 0; round < 8; round++ {
				bm, err := p.recvMsg()
				if err != nil {
					return err
				}
				mask := int((&wireReader{b: bm}).int())
				p.logf("client bitmask %#x", mask)
				if mask == 0 {
					return fmt.Errorf("peer: client gave up")
				}
				sel := 0
				switch dev.Select {
				case "":
					if mask&2 != 0 {
						sel = 2
					}
				case "unoffered":
					// pick a bit that is not in the client's mask
					for _, b := range []int{2, 4, 2048, 256} {
						if mask&b == 0 {
							sel = b
							break
						}
					}
				case "several":
					sel = mask | 2 | 4
				case "zero":
					sel = 0
				case "all-offered", "all-offered-then-proceed":
					sel = mask // every bit the client offered, at once
				case "fs-repeat":
					sel = 4 // FILESYSTEM, whether or not the client still offers it
				}
				if err := p.sendMsg(refcodec.EncInt(int64(sel)), false); err != nil {
					return err
				}
				if dev.Select == "all-offered-then-proceed" && sel&(sel-1) != 0 {
					// several offered bits name no method: nothing can run. This peer carries on as if
					// authentication were over (key exchange step, then the post-auth ad)
					p.logf("selected all offered bits %#x and moved on", sel)
					if err := p.sendMsg(refcodec.EncInt(0), false); err != nil {
						return err
					}
					break
				}
				if dev.Select == "fs-repeat" {
					// server half of one FILESYSTEM exchange: name a directory, read the client's
					// answer, declare the attempt failed
					path := fmt.Sprintf("/tmp/FS_rep%d", round)
					if err := p.sendMsg(refcodec.EncString(path, false), false); err != nil {
						return err
					}
					m, err := p.recvMsg()
					if err != nil {
						return err
					}
					if dev.FSHook != nil {
						dev.FSHook(round, path, (&wireReader{b: m}).int())
					}
					if err := p.sendMsg(refcodec.EncInt(-1), false); err != nil {
						return err
					}
					continue
				}
				if sel == 0 {
					continue
				}
				if sel != 2 {
					// we only speak CLAIMTOBE; whatever E does next is E's business
					p.logf("selected non-CLAIMTOBE %#x; waiting for E", sel)
					if sel&2 == 0 {
						continue
					}
				}
				// CLAIMTOBE server side
				cm, err := p.recvMsg()
				if err != nil {
					return err
				}
				cr := &wireReader{b: cm}
				st := cr.int()
				user := cr.str()
				p.logf("CLAIMTOBE status=%d user=%q", st, user)
				if st != 1 {
					continue
				}
				if err := p.sendMsg(refcodec.EncInt(1), false); err != nil {
					return err
				}
				out.AuthExchangeCompleted = true
				out.MethodRun = "CLAIMTOBE"
				_ = clientMethods
				// exchangeKey: hasKey = 0
				if err := p.sendMsg(refcodec.EncInt(0), false); err != nil {
					return err
				}
				break
			}
		}
		// key agreement
		ckey := cad.str("ECDHPublicKey")
		if dev.ECDH == "" && !dev.NoCipher && ckey != "" {
			if k, err := keys.derive(ckey); err == nil {
				out.Key, out.KeyAgreed = k, true
				p.enableCrypto(k)
			}
		}
		// post-auth ad
		pa := newWireAd()
		rc := "AUTHORIZED"
		if dev.Denied {
			rc = "DENIED"
		}
		out.Sid = "peer-sid-1"
		pa.setS("ReturnCode", rc).setS("Sid", out.Sid).setS("User", "someone@peer").setS("ValidCommands", "60010,5,6")
		pa.setI("SessionDuration", 3600).setI("SessionLease", 1800)
		out.PostAuthAd = pa
		body := pa.encode(p.encOn && !dev.PostAuthClear)
		if dev.PostAuthSecret {
			enc := p.encOn && !dev.PostAuthClear
			body = refcodec.EncInt(int64(len(pa.Order) + 1))
			for _, k := range pa.Order {
				body = append(body, refcodec.EncString(k+" = "+pa.Attrs[k], enc)...)
			}
			body = append(body, refcodec.EncString("ZKM", enc)...)
			body = append(body, refcodec.EncString(`ClaimId = "<10.0.0.9:9618>#1#2#cookie"`, enc)...)
			body = append(body, refcodec.EncString("", enc)...)
			body = append(body, refcodec.EncString("", enc)...)
		}
		if err := p.sendMsg(body, dev.PostAuthClear); err != nil {
			return err
		}
		// application phase: E is made to send a canary; record how it arrives
		am, err := p.recvMsg()
		if err != nil {
			out.AppErr = err
			return nil
		}
		out.AppFromE = am
		out.AppFromEProtected = p.encOn && len(p.PlainAfterKey) == 0 && p.ProtIn > 0
		_ = p.sendMsg([]byte("pong-from-peer"), false)
		return nil
	}
}

// scriptedClient plays the client against a real cedar server.
func scriptedClient(dev peerDev, out *peerOutcome) func(*netsim.End) error {
	return func(end *netsim.End) error {
		p := &peerConn{end: end}
		defer func() { out.Log = p.Log }()
		keys := newPeerKeys()
		cad := newWireAd()
		methods := dev.Methods
		if methods == "" {
			methods = "CLAIMTOBE"
		}
		la, le := dev.ClaimLevelAuth, dev.ClaimLevelEnc
		if la == "" {
			la = "OPTIONAL"
		}
		if le == "" {
			le = "OPTIONAL"
		}
		cad.setS("AuthMethods", methods)
		if dev.NoCipher {
			cad.setS("CryptoMethods", "BLOWFISH")
		} else {
			cad.setS("CryptoMethods", "AES")
		}
		cad.setS("Authentication", la).setS("Encryption", le).setS("Integrity", "OPTIONAL")
		cad.setI("Command", 5)
		cad.setS("RemoteVersion", "$CondorVersion: 25.4.0 2025-10-31 BuildID: 1 $")
		switch dev.ECDH {
		case "":
			cad.setS("ECDHPublicKey", keys.pubB64)
		case "truncate":
			cad.setS("ECDHPublicKey", keys.pubB64[:40])
		case "random65":
			b := make([]byte, 65)
			_, _ = rand.Read(b)
			b[0] = 4
			cad.setS("ECDHPublicKey", base64.StdEncoding.EncodeToString(b))
		case "notb64":
			cad.setS("ECDHPublicKey", "!!!not*base64!!!")
		}
		cad.set("NegotiatedSession", "true").setS("NewSession", "YES").setS("OutgoingNegotiation", "PREFERRED").setS("Enact", "NO")
		out.ClientAd = cad
		if err := p.sendMsg(append(refcodec.EncInt(dcAuthenticate), cad.encode(false)...), false); err != nil {
			return err
		}
		sm, err := p.recvMsg()
		if err != nil {
			return err
		}
		sad := (&wireReader{b: sm}).ad()
		out.ServerAd = sad
		if rc := sad.str("ReturnCode"); rc != "" && rc != "AUTHORIZED" {
			return fmt.Errorf("peer: server denied: %s", rc)
		}
		if sad.str("Authentication") == "YES" && !dev.SkipBitmask {
			mask := 0
			for _, m := range strings.Split(methods, ",") {
				mask |= methodBits[strings.TrimSpace(m)]
			}
			if dev.BitmaskOutside {
				mask = 4 | 256 // FS|SSL: outside what we listed
			}
			for round := 0; round < 4; round++ {
				if err := p.sendMsg(refcodec.EncInt(int64(mask)), false); err != nil {
					return err
				}
				rm, err := p.recvMsg()
				if err != nil {
					return err
				}
				sel := int((&wireReader{b: rm}).int())
				p.logf("server selected %#x", sel)
				if sel == 0 {
					return fmt.Errorf("peer: server rejected all methods")
				}
				if sel == 2048 && dev.Token != "" {
					if err := scriptedAKEP2(p, dev, out); err != nil {
						return err
					}
					out.AuthExchangeCompleted = true
					out.MethodRun = "TOKEN"
					if _, err := p.recvMsg(); err != nil { // exchangeKey
						return err
					}
					break
				}
				if sel != 2 {
					return fmt.Errorf("peer: server selected %#x which this peer cannot run", sel)
				}
				if err := p.sendMsg(append(refcodec.EncInt(1), refcodec.EncString("mallory@evil.example", false)...), false); err != nil {
					return err
				}
				am, err := p.recvMsg()
				if err != nil {
					return err
				}
				if (&wireReader{b: am}).int() != 1 {
					return fmt.Errorf("peer: CLAIMTOBE rejected")
				}
				out.AuthExchangeCompleted = true
				out.MethodRun = "CLAIMTOBE"
				km, err := p.recvMsg()
				if err != nil {
					return err
				}
				_ = km
				break
			}
		}
		skey := sad.str("ECDHPublicKey")
		if dev.ECDH == "" && !dev.NoCipher && skey != "" && sad.str("CryptoMethods") == "AES" {
			if k, err := keys.derive(skey); err == nil {
				out.Key, out.KeyAgreed = k, true
				p.enableCrypto(k)
			}
		}
		pm, err := p.recvMsg()
		if err != nil {
			return err
		}
		out.PostAuthAd = (&wireReader{b: pm, enc: p.encOn && len(p.PlainAfterKey) == 0}).ad()
		out.Sid = out.PostAuthAd.str("Sid")
		out.EHandshakeDoneSeen = true
		// application: send a command-style message in whatever protection we hold
		out.Canary = "CANARY-from-scripted-client"
		if err := p.sendMsg([]byte(out.Canary), false); err != nil {
			return err
		}
		am, err := p.recvMsg()
		if err != nil {
			out.AppErr = err
			return nil
		}
		out.AppFromE = am
		out.AppFromEProtected = p.encOn && len(p.PlainAfterKey) == 0 && p.ProtIn >= 2
		return nil
	}
}

// scriptedAKEP2 runs the three TOKEN messages as a client, with the deviations
// of dev; written from the protocol description, shares no code with cedar.
func scriptedAKEP2(p *peerConn, dev peerDev, out *peerOutcome) error {
	parts := strings.Split(dev.Token, ".")
	if len(parts) != 3 {
		return fmt.Errorf("peer: token needs three parts")
	}
	hp := parts[0] + "." + parts[1]
	sig, _ := base64.RawURLEncoding.DecodeString(parts[2])
	k, _ := akepKeys(sig, hp)
	claim := dev.TokClaim
	if claim == "" {
		claim = "nobody@nowhere"
		if pb, err := base64.RawURLEncoding.DecodeString(parts[1]); err == nil {
			var c map[string]any
			if json.Unmarshal(pb, &c) == nil {
				if sub, ok := c["sub"].(string); ok && sub != "" {
					claim = sub
				}
			}
		}
	}
	idstr := func(v string) []byte {
		return append(append(refcodec.EncInt(int64(len(v))), v...), 0)
	}
	raw := func(v []byte) []byte { return append(refcodec.EncInt(int64(len(v))), v...) }
	ra := make([]byte, 256)
	_, _ = rand.Read(ra)
	m1 := refcodec.EncInt(0)
	m1 = append(m1, idstr(claim)...)
	m1 = append(append(m1, hp...), 0)
	m1 = append(m1, raw(ra)...)
	if dev.TokStep1 != "" {
		// the whole of step 1 in a frame that does not end the message; then nothing a TOKEN client
		// would send: no proof is ever presented on this connection
		if _, err := p.end.Write(refcodec.MkFrame(0, m1)); err != nil {
			return err
		}
		out.MethodRun = "TOKEN"
		if dev.TokStep1 == "no-eom-then-bad-header" {
			_, _ = p.end.Write([]byte{0x0b, 0, 0, 0, 0})
			_, _ = p.recvMsg() // whatever the server says next
			return fmt.Errorf("scripted client stopped after step 1")
		}
		p.end.Close()
		return fmt.Errorf("scripted client closed after step 1")
	}
	if err := p.sendMsg(m1, false); err != nil {
		return err
	}
	m2, err := p.recvMsg()
	if err != nil {
		return err
	}
	r := &wireReader{b: m2}
	out.TokStep2Status = r.int()
	rdID := func() string { r.int(); return r.str() }
	rdRaw := func() []byte {
		n := int(r.int())
		if n < 0 || n > len(r.b) {
			n = 0
		}
		v := r.b[:n]
		r.b = r.b[n:]
		return v
	}
	a2, b2 := rdID(), rdID()
	raEcho, rb, smac := rdRaw(), rdRaw(), rdRaw()
	_ = raEcho
	out.TokServerProofOK = out.TokStep2Status == 0 && hmac.Equal(smac, akepMAC(k, []byte(a2), []byte{' '}, []byte(b2), []byte{0}, ra, rb))
	p.logf("akep2 step2: status=%d A=%q B=%q rb=%d proof-ok=%v", out.TokStep2Status, a2, b2, len(rb), out.TokServerProofOK)
	proofID := claim
	if dev.TokProof == "for-other-id" {
		proofID = a2 // whatever identity the server echoed
	}
	proof := akepMAC(k, []byte(proofID), []byte{0}, rb)
	switch dev.TokProof {
	case "empty":
		proof = nil
	case "wrong":
		proof = append([]byte(nil), proof...)
		proof[0] ^= 1
	}
	echo := rb
	switch dev.TokRBEcho {
	case "empty":
		echo = nil
	case "wrong":
		echo = append([]byte(nil), rb...)
		if len(echo) > 0 {
			echo[0] ^= 1
		}
	}
	m3 := refcodec.EncInt(0)
	m3 = append(m3, idstr(claim)...)
	m3 = append(m3, raw(echo)...)
	m3 = append(m3, raw(proof)...)
	if dev.TokTrail {
		m3 = append(m3, 0x41)
	}
	return p.sendMsg(m3, false)
}

func sortedKeys(m map[string]string) []string {
	ks := make([]string, 0, len(m))
	for k := range m {
		ks = append(ks, k)
	}
	sort.Strings(ks)
	return ks
}
