package props

// C05 — the server runs a command only on a session that meets that command's
// policy. E-BFS (bounded history enumeration) on a real server.Server: commands
// with different per-command policies and authorization levels, an authorizer
// table that changes between connections, clients that are honest and
// authenticated, unauthenticated, plaintext, or skip key agreement (scripted),
// first commands, kept-alive follow-ons, explicit resumption with another
// command, and raw sends. A monitor inside every handler checks each dispatch
// against ground truth gathered on the wire.

import (
	"bytes"
	"context"
	"fmt"
	"strings"
	"sync"
	"time"

	"github.com/bbockelm/cedar/message"
	"github.com/bbockelm/cedar/security"
	"github.com/bbockelm/cedar/server"
	"github.com/bbockelm/cedar/stream"

	"verif/netsim"
	"verif/refcodec"
	"verif/vlib"
)

const (
	cmdA = 101 // auth/enc OPTIONAL, perm READ
	cmdB = 102 // auth REQUIRED, perm WRITE
	cmdC = 103 // auth + enc REQUIRED, perm DAEMON
	cmdD = 104 // raw
	cmdE = 105 // unregistered
	cmdF = 106 // first registered raw, then re-registered authenticated (auth + enc REQUIRED, DAEMON)
	cmdG = 107 // first registered authenticated, then re-registered raw
	cmdH = 108 // auth OPTIONAL, enc PREFERRED (encryption is negotiated but not demanded), perm READ
)

var c05Cmds = []int{cmdA, cmdB, cmdC, cmdD, cmdE}

type c05Policy struct {
	auth, enc security.SecurityLevel
	perm      string
	raw       bool
	reg       bool
}

var c05Pol = map[int]c05Policy{
	cmdA: {security.SecurityOptional, security.SecurityOptional, "READ", false, true},
	cmdB: {security.SecurityRequired, security.SecurityOptional, "WRITE", false, true},
	cmdC: {security.SecurityRequired, security.SecurityRequired, "DAEMON", false, true},
	cmdD: {"", "", "", true, true},
	cmdE: {},
	cmdF: {security.SecurityRequired, security.SecurityRequired, "DAEMON", false, true},
	cmdG: {"", "", "", true, true},
	cmdH: {security.SecurityOptional, security.SecurityPreferred, "READ", false, true},
}

// authorizer tables: user prefix -> perms
var c05Tables = map[string]map[string]string{
	"T1": {"alice": "READ,WRITE", "bob": "READ"},
	"T2": {"alice": "READ"},
	"T3": {"alice": "READ,WRITE,DAEMON", "bob": "READ,WRITE,DAEMON", "mallory": "READ,WRITE,DAEMON"},
}

type c05Invocation struct {
	cmd       int
	raw       bool
	negAuth   bool
	negEnc    bool
	streamEnc bool
	user      string
	viaAuth   bool
	sid       string
}

type c05World struct {
	srv       *server.Server
	table     string // "", T1, T2, T3
	mu        sync.Mutex
	inv       []c05Invocation
	caches    map[string]*security.SessionCache
	lastSid   map[string]string // client kind -> sid of its last session
	truthAuth map[string]bool   // sid -> an authentication exchange really ran
	truthUser map[string]string
	res       *vlib.Result
	hist      string
	layout    string
}

func (w *c05World) viol(key, f string, a ...any) {
	w.res.Violate("C05/"+key, "history [%s]: "+f, append([]any{w.hist}, a...)...)
}

// layout "percmd": permissive default, the per-command hook answers for every
// registered command. layout "nilhook": the default is the strictest policy
// (command C's) and the hook returns nil for C ("use the default"), so C's
// policy reaches the server only through the documented fallback.
func newC05World(res *vlib.Result, hist, layout string) *c05World {
	w := &c05World{res: res, hist: hist, caches: map[string]*security.SessionCache{}, lastSid: map[string]string{}, truthAuth: map[string]bool{}, truthUser: map[string]string{}}
	mk := func(p c05Policy) *security.SecurityConfig {
		c := baseCfg(p.auth, p.enc, []security.AuthMethod{mTOK, mCTB}, []security.CryptoMethod{security.CryptoAES}, true)
		return c
	}
	var own *security.SessionCache
	if layout == "owncache" {
		// the server is configured with a session cache of its own (negotiated sessions still go
		// to the package-global cache, which resumption falls back to)
		own = security.NewSessionCache()
		inner := mk
		mk = func(p c05Policy) *security.SecurityConfig {
			c := inner(p)
			c.SessionCache = own
			return c
		}
	}
	def := mk(c05Pol[cmdA])
	if layout == "nilhook" {
		def = mk(c05Pol[cmdC])
	}
	w.srv = server.New(def)
	w.layout = layout
	if layout == "mapped" {
		// the server maps authenticated identities to other fully-qualified users and
		// authorizes the MAPPED names by the table; a raw (unmapped) name - which no
		// session of this server should ever be judged under - is allowed everything
		w.srv.FQUMapper = func(u, peer string) string {
			if u == "" {
				return ""
			}
			return "mapped-" + u + "@pool.example"
		}
	}
	w.srv.SecurityConfigForCommand = func(c int) *security.SecurityConfig {
		p, ok := c05Pol[c]
		if !ok || !p.reg || p.raw {
			return nil
		}
		if layout == "nilhook" && c == cmdC {
			return nil
		}
		cfg := mk(p)
		cfg.PostAuthPolicy = def.PostAuthPolicy
		return cfg
	}
	handler := func(raw bool) server.HandlerFunc {
		return func(ctx context.Context, c *server.Conn) error {
			iv := c05Invocation{cmd: c.Command, raw: raw, streamEnc: c.Stream.IsEncrypted(), viaAuth: c.Negotiation != nil}
			if c.Negotiation != nil {
				iv.negAuth, iv.negEnc, iv.user, iv.sid = c.Negotiation.Authentication, c.Negotiation.Encryption, c.Negotiation.User, c.Negotiation.SessionId
			}
			w.mu.Lock()
			w.inv = append(w.inv, iv)
			w.mu.Unlock()
			m := message.NewMessageForStream(c.Stream)
			_ = m.PutInt(ctx, c.Command)
			_ = m.PutString(ctx, fmt.Sprintf("RESP-CANARY-%d", c.Command))
			if err := m.FinishMessage(ctx); err != nil {
				return err
			}
			if !raw {
				c.KeepAlive()
			}
			return nil
		}
	}
	w.srv.Handle(cmdA, handler(false), "READ")
	w.srv.Handle(cmdB, handler(false), "WRITE")
	w.srv.Handle(cmdC, handler(false), "DAEMON")
	w.srv.HandleRaw(cmdD, handler(true))
	// registrations that change their mind: the LAST registration decides the path
	w.srv.HandleRaw(cmdF, handler(true))
	w.srv.Handle(cmdF, handler(false), "DAEMON")
	w.srv.Handle(cmdG, handler(false), "READ")
	w.srv.HandleRaw(cmdG, handler(true))
	w.srv.Handle(cmdH, handler(false), "READ")
	w.setTable("")
	return w
}

func (w *c05World) setTable(t string) {
	w.table = t
	if t == "" {
		w.srv.Authorizer = nil
		return
	}
	tab := c05Tables[t]
	w.srv.Authorizer = func(perm, peer, user string) bool {
		if w.layout == "mapped" {
			if !strings.HasPrefix(user, "mapped-") {
				return user != "" // the trap: a raw authenticated name may do anything
			}
			user = strings.TrimPrefix(user, "mapped-")
		}
		for u, perms := range tab {
			if strings.HasPrefix(user, u) {
				for _, p := range strings.Split(perms, ",") {
					if p == perm {
						return true
					}
				}
			}
		}
		return false
	}
}

func (w *c05World) authorizedNow(user string, cmd int) bool {
	if w.table == "" {
		return true
	}
	for u, perms := range c05Tables[w.table] {
		if strings.HasPrefix(user, u) {
			for _, p := range strings.Split(perms, ",") {
				if p == c05Pol[cmd].perm {
					return true
				}
			}
		}
	}
	return false
}

// one connection: client kind, optional explicit resumption, command list
type c05Conn struct {
	kind   string // alice, bob, anon, plain, keyskip, raw, alice-nc (TOKEN, no cipher), thief
	resume bool
	cmds   []int
	victim string // thief: whose last session id is named in the (key-less, credential-less) resumption request
}

// runConn executes one connection against the real server and judges every dispatch.
func (w *c05World) runConn(cn c05Conn) {
	world := netsim.NewWorld(2)
	ce, se := netsim.Pipe(world, hsClientAddr, hsServerAddr)
	var c2s, s2c [][]byte
	var mu sync.Mutex
	var spC, spS netsim.FrameSplitter
	ce.Hook = func(d []byte) [][]byte {
		mu.Lock()
		c2s = append(c2s, spC.Feed(d)...)
		mu.Unlock()
		return [][]byte{d}
	}
	se.Hook = func(d []byte) [][]byte {
		mu.Lock()
		s2c = append(s2c, spS.Feed(d)...)
		mu.Unlock()
		return [][]byte{d}
	}
	w.mu.Lock()
	w.inv = nil
	w.mu.Unlock()
	ctx := context.Background()
	var wg sync.WaitGroup
	wg.Add(2)
	var srvErr error
	go func() {
		defer wg.Done()
		defer world.Done()
		srvErr = w.srv.ServeConn(ctx, se)
		se.Close()
	}()
	type clientOut struct {
		hsErr     error
		neg       *security.SecurityNegotiation
		resumed   bool
		responses []string
		peerKeyed bool
	}
	out := &clientOut{}
	go func() {
		defer wg.Done()
		defer world.Done()
		defer ce.Close()
		readResp := func(st *stream.Stream) bool {
			m := message.NewMessageFromStream(st)
			if _, err := m.GetInt(ctx); err != nil {
				return false
			}
			s, err := m.GetString(ctx)
			if err != nil {
				return false
			}
			out.responses = append(out.responses, s)
			return true
		}
		switch cn.kind {
		case "raw":
			st := stream.NewStream(ce)
			m := message.NewMessageForStream(st)
			_ = m.PutInt(ctx, cn.cmds[0])
			_ = m.PutString(ctx, "RAW-PAYLOAD")
			if m.FinishMessage(ctx) == nil {
				readResp(st)
			}
			return
		case "keyskip":
			// scripted client: CLAIMTOBE, omits its ECDH key, then sends follow-ons in clear
			po := &peerOutcome{}
			dev := peerDev{ECDH: "omit", ClaimLevelAuth: "PREFERRED", ClaimLevelEnc: "OPTIONAL", Methods: "CLAIMTOBE"}
			p := &peerConn{end: ce}
			if err := c05ScriptedOpen(p, dev, cn.cmds[0], po); err != nil {
				out.hsErr = err
				return
			}
			out.peerKeyed = po.KeyAgreed
			if m, err := p.recvMsg(); err == nil {
				out.responses = append(out.responses, string(m))
			} else {
				return
			}
			for _, c := range cn.cmds[1:] {
				if err := p.sendMsg(append(refcodec.EncInt(int64(c)), refcodec.EncString("FOLLOW-CANARY", false)...), false); err != nil {
					return
				}
				m, err := p.recvMsg()
				if err != nil {
					return
				}
				out.responses = append(out.responses, string(m))
			}
			return
		}
		if cn.kind == "thief" {
			// scripted requester that holds neither key nor credentials: it names somebody else's
			// session id in a resumption request and then speaks in clear
			p := &peerConn{end: ce}
			ad := newWireAd()
			ad.setI("Command", cn.cmds[0]).setS("UseSession", "YES").setS("Sid", w.lastSid[cn.victim]).set("ResumeResponse", "true")
			ad.setS("RemoteVersion", "$CondorVersion: 25.4.0 2025-10-31 BuildID: 1 $").setS("CryptoMethods", "AES")
			if err := p.sendMsg(append(refcodec.EncInt(dcAuthenticate), ad.encode(false)...), false); err != nil {
				out.hsErr = err
				return
			}
			m, err := p.recvMsg()
			if err != nil {
				out.hsErr = err
				return
			}
			if (&wireReader{b: m}).ad().str("ReturnCode") != "AUTHORIZED" {
				out.hsErr = fmt.Errorf("resumption refused")
				return
			}
			if m, err := p.recvMsg(); err == nil {
				out.responses = append(out.responses, string(m))
			}
			return
		}
		// real cedar client
		var cfg *security.SecurityConfig
		switch cn.kind {
		case "alice-nc":
			// authenticates by TOKEN but has no cipher in common with the server: the session that
			// results is authenticated and carries NO key
			cfg = baseCfg(security.SecurityPreferred, security.SecurityOptional, []security.AuthMethod{mTOK}, nil, false)
			cfg.Token = goodToken("alice@verif.domain")
		case "carol-nc":
			// authenticates by CLAIMTOBE with no cipher in common: authenticated, and no key material at all
			cfg = baseCfg(security.SecurityPreferred, security.SecurityOptional, []security.AuthMethod{mCTB}, nil, false)
		case "alice", "bob":
			cfg = baseCfg(security.SecurityPreferred, security.SecurityPreferred, []security.AuthMethod{mTOK}, []security.CryptoMethod{security.CryptoAES}, false)
			cfg.Token = goodToken(cn.kind + "@verif.domain")
		case "anon":
			cfg = baseCfg(security.SecurityNever, security.SecurityOptional, nil, []security.CryptoMethod{security.CryptoAES}, false)
		case "plain":
			cfg = baseCfg(security.SecurityNever, security.SecurityNever, nil, nil, false)
		case "lurker":
			// lists a method the server also lists but holds no token: whenever
			// authentication is optional nothing runs (a method is merely pre-selected),
			// whenever it is required the handshake fails - never authenticated
			cfg = baseCfg(security.SecurityOptional, security.SecurityOptional, []security.AuthMethod{mTOK}, []security.CryptoMethod{security.CryptoAES}, false)
			cfg.Token = ""
		}
		if w.caches[cn.kind] == nil {
			w.caches[cn.kind] = security.NewSessionCache()
		}
		cfg.SessionCache = w.caches[cn.kind]
		cfg.Command = cn.cmds[0]
		if cn.resume {
			cfg.SessionID = w.lastSid[cn.kind]
		}
		st := stream.NewStream(ce)
		a := security.NewAuthenticator(cfg, st)
		out.neg, out.hsErr = a.ClientHandshake(ctx)
		if out.hsErr != nil {
			return
		}
		out.resumed = a.WasSessionResumed()
		if !readResp(st) {
			return
		}
		for _, c := range cn.cmds[1:] {
			m := message.NewMessageForStream(st)
			_ = m.PutInt(ctx, c)
			_ = m.PutString(ctx, "FOLLOW-CANARY")
			if m.FinishMessage(ctx) != nil {
				return
			}
			if !readResp(st) {
				return
			}
		}
	}()
	done := make(chan struct{})
	go func() { wg.Wait(); close(done) }()
	select {
	case <-done:
	case <-time.After(60 * time.Second):
		ce.Close()
		se.Close()
		<-done
		w.viol("hang", "connection %+v did not finish", cn)
		return
	}
	w.res.Transitions += len(cn.cmds)
	// ---- ground truth from the wire ----
	sid := ""
	if out.neg != nil {
		sid = out.neg.SessionId
	}
	if cn.kind != "raw" && cn.kind != "keyskip" && cn.kind != "thief" && out.hsErr == nil && sid != "" {
		if !out.resumed {
			// authentication exchange ran <=> the client sent more than its ad before the first follow-on
			n := 0
			for _, f := range c2s {
				if len(f) == 5+8 { // an 8-byte bitmask message
					n++
				}
			}
			w.truthAuth[sid] = n > 0 && (cn.kind == "alice" || cn.kind == "bob" || cn.kind == "alice-nc" || cn.kind == "carol-nc")
			w.truthUser[sid] = strings.TrimSuffix(cn.kind, "-nc")
		}
		w.lastSid[cn.kind] = sid
	}
	clearSeen := func(frames [][]byte, needle string) bool { return framesContain(frames, needle) }
	// ---- judge every handler invocation ----
	w.mu.Lock()
	invs := append([]c05Invocation(nil), w.inv...)
	w.mu.Unlock()
	for i, iv := range invs {
		p := c05Pol[iv.cmd]
		id := fmt.Sprintf("conn{kind=%s resume=%v cmds=%v} dispatch #%d cmd=%d table=%q", cn.kind, cn.resume, cn.cmds, i, iv.cmd, w.table)
		if !p.reg {
			w.viol("unregistered-ran", "%s: a handler ran for an unregistered command", id)
			continue
		}
		if cn.kind == "raw" {
			if !p.raw {
				w.viol("auth-handler-via-raw-path", "%s: authenticated handler reached through the raw path", id)
			}
			continue
		}
		if p.raw {
			w.viol("raw-handler-via-auth-path", "%s: raw handler reached through the authenticated path", id)
			continue
		}
		// authentication really happened?
		truthAuth := false
		user := ""
		switch cn.kind {
		case "thief":
			// Holds no key and no credentials. Where the resumed session has a key, the server's side of
			// the connection is protected from the reply onwards and the requester can neither read a
			// byte nor get one accepted (C06): the dispatch is judged as the session's. Where it has
			// none, nobody has proved - or can ever prove - anything on this connection.
			truthAuth, user = false, ""
			if iv.streamEnc {
				truthAuth, user = w.truthAuth[iv.sid], w.truthUser[iv.sid]
			}
		case "keyskip":
			truthAuth, user = true, "mallory" // CLAIMTOBE exchange completed in the scripted peer
		default:
			truthAuth, user = w.truthAuth[iv.sid], w.truthUser[iv.sid]
		}
		kind := fmt.Sprintf("%s/cmd=%d/pos=%s", cn.kind, iv.cmd, map[bool]string{true: "first", false: "follow"}[i == 0])
		if cn.kind == "thief" {
			kind = fmt.Sprintf("thief-names-session-of-%s/cmd=%d", cn.victim, iv.cmd)
		}
		if cn.resume {
			kind += "/resumed"
		}
		if p.auth == security.SecurityRequired && !truthAuth {
			w.viol("ran-unauthenticated/"+kind, "%s: command requires authentication but no authentication exchange ever ran for this session (server believes authenticated=%v)", id, iv.negAuth)
		}
		if p.enc == security.SecurityRequired {
			resp := fmt.Sprintf("RESP-CANARY-%d", iv.cmd)
			if !iv.streamEnc || clearSeen(s2c, resp) || (i > 0 && clearSeen(c2s, "FOLLOW-CANARY")) {
				w.viol("ran-unencrypted/"+kind, "%s: command requires encryption but the stream is plaintext (IsEncrypted=%v, response visible on the wire=%v; server believes encrypted=%v)", id, iv.streamEnc, clearSeen(s2c, resp), iv.negEnc)
			}
		}
		if w.table != "" && !w.authorizedNow(user, iv.cmd) {
			w.viol("ran-unauthorized/"+kind, "%s: identity %q (server sees %q) is not authorized at %s under table %s", id, user, iv.user, p.perm, w.table)
		}
		w.res.Outcome(fmt.Sprintf("dispatched-cmd=%d", iv.cmd))
	}
	// refused / unknown => connection closed, and nothing after it ran
	if len(invs) < len(cn.cmds) {
		w.res.Outcome("refused-or-failed")
		if !se.IsClosed() {
			w.viol("refused-but-open", "connection %+v: %d of %d commands dispatched but the server did not close the connection (err=%v)", cn, len(invs), len(cn.cmds), srvErr)
		}
	}
	if len(invs) > len(cn.cmds) {
		w.viol("extra-dispatch", "connection %+v: %d handlers ran for %d commands", cn, len(invs), len(cn.cmds))
	}
	_ = bytes.Equal
}

// c05ScriptedOpen: scripted client handshake (subset of scriptedClient) that
// stops before the application phase; cmd is the first command.
func c05ScriptedOpen(p *peerConn, dev peerDev, cmd int, out *peerOutcome) error {
	keys := newPeerKeys()
	cad := newWireAd()
	cad.setS("AuthMethods", "CLAIMTOBE").setS("CryptoMethods", "AES")
	cad.setS("Authentication", dev.ClaimLevelAuth).setS("Encryption", dev.ClaimLevelEnc).setS("Integrity", "OPTIONAL")
	cad.setI("Command", cmd)
	cad.setS("RemoteVersion", "$CondorVersion: 25.4.0 2025-10-31 BuildID: 1 $")
	if dev.ECDH == "" {
		cad.setS("ECDHPublicKey", keys.pubB64)
	}
	cad.set("NegotiatedSession", "true").setS("NewSession", "YES").setS("OutgoingNegotiation", "PREFERRED").setS("Enact", "NO")
	if err := p.sendMsg(append(refcodec.EncInt(dcAuthenticate), cad.encode(false)...), false); err != nil {
		return err
	}
	sm, err := p.recvMsg()
	if err != nil {
		return err
	}
	sad := (&wireReader{b: sm}).ad()
	if rc := sad.str("ReturnCode"); rc != "" && rc != "AUTHORIZED" {
		return fmt.Errorf("denied")
	}
	if sad.str("Authentication") == "YES" {
		if err := p.sendMsg(refcodec.EncInt(2), false); err != nil {
			return err
		}
		rm, err := p.recvMsg()
		if err != nil {
			return err
		}
		if (&wireReader{b: rm}).int() != 2 {
			return fmt.Errorf("server did not select CLAIMTOBE")
		}
		if err := p.sendMsg(append(refcodec.EncInt(1), refcodec.EncString("mallory@evil.example", false)...), false); err != nil {
			return err
		}
		if _, err := p.recvMsg(); err != nil {
			return err
		}
		if _, err := p.recvMsg(); err != nil { // exchangeKey
			return err
		}
		out.AuthExchangeCompleted = true
	}
	if dev.ECDH == "" && sad.str("ECDHPublicKey") != "" {
		if k, err := keys.derive(sad.str("ECDHPublicKey")); err == nil {
			out.KeyAgreed = true
			p.enableCrypto(k)
		}
	}
	pm, err := p.recvMsg()
	if err != nil {
		return err
	}
	pa := (&wireReader{b: pm, enc: p.encOn}).ad()
	if rc := pa.str("ReturnCode"); rc != "AUTHORIZED" {
		return fmt.Errorf("post-auth %q", rc)
	}
	return nil
}

// ---- history enumeration ----

type c05Event struct {
	kind string // open, follow, resume, table, raw
	who  string
	cmd  int
	tab  string
}

func (e c05Event) String() string {
	switch e.kind {
	case "open":
		return fmt.Sprintf("open(%s,%d)", e.who, e.cmd)
	case "follow":
		return fmt.Sprintf("follow(%d)", e.cmd)
	case "resume":
		return fmt.Sprintf("resume(%s,%d)", e.who, e.cmd)
	case "table":
		return fmt.Sprintf("table(%s)", e.tab)
	case "raw":
		return fmt.Sprintf("raw(%d)", e.cmd)
	case "steal":
		return fmt.Sprintf("steal(%s,%d)", e.who, e.cmd)
	}
	return e.kind
}

func c05Alphabet(tier string) []c05Event {
	var ev []c05Event
	kinds := []string{"alice", "bob", "anon", "plain", "lurker", "keyskip"}
	for _, k := range kinds {
		for _, c := range c05Cmds {
			ev = append(ev, c05Event{kind: "open", who: k, cmd: c})
		}
	}
	for _, c := range []int{cmdF, cmdG} {
		ev = append(ev, c05Event{kind: "open", who: "alice", cmd: c})
	}
	for _, k := range []string{"alice", "anon", "keyskip"} {
		ev = append(ev, c05Event{kind: "open", who: k, cmd: cmdH})
	}
	// command numbers that equal a registered command only in their low 32 bits: unknown commands
	for _, k := range []string{"anon", "plain"} {
		ev = append(ev, c05Event{kind: "open", who: k, cmd: cmdC + 1<<32})
	}
	ev = append(ev, c05Event{kind: "follow", cmd: cmdC + 1<<32}, c05Event{kind: "follow", cmd: cmdB + 1<<32})
	for _, c := range append(append([]int(nil), c05Cmds...), cmdF, cmdG) {
		ev = append(ev, c05Event{kind: "follow", cmd: c})
	}
	rk := []string{"alice", "anon", "plain", "lurker"}
	if tier == "thorough" {
		rk = []string{"alice", "bob", "anon", "plain", "lurker"}
	}
	for _, k := range rk {
		for _, c := range []int{cmdA, cmdB, cmdC} {
			ev = append(ev, c05Event{kind: "resume", who: k, cmd: c})
		}
	}
	for _, t := range []string{"T1", "T2", ""} {
		ev = append(ev, c05Event{kind: "table", tab: t})
	}
	for _, c := range []int{cmdD, cmdB, cmdE, cmdF, cmdG} {
		ev = append(ev, c05Event{kind: "raw", cmd: c})
	}
	return ev
}

// c05Run replays one history on a fresh world.
func c05Run(hist []c05Event, layout string) *vlib.Result {
	res := &vlib.Result{Evals: 1}
	security.ClearSessionCache()
	names := make([]string, len(hist))
	for i, e := range hist {
		names[i] = e.String()
	}
	w := newC05World(res, layout+": "+strings.Join(names, " "), layout)
	var cur *c05Conn
	flush := func() {
		if cur != nil {
			w.runConn(*cur)
			cur = nil
		}
	}
	for _, e := range hist {
		switch e.kind {
		case "open":
			flush()
			cur = &c05Conn{kind: e.who, cmds: []int{e.cmd}}
		case "follow":
			cur.cmds = append(cur.cmds, e.cmd)
		case "resume":
			flush()
			cur = &c05Conn{kind: e.who, resume: true, cmds: []int{e.cmd}}
		case "table":
			flush()
			w.setTable(e.tab)
		case "raw":
			flush()
			w.runConn(c05Conn{kind: "raw", cmds: []int{e.cmd}})
		case "steal":
			flush()
			w.runConn(c05Conn{kind: "thief", victim: e.who, cmds: []int{e.cmd}})
		}
	}
	flush()
	if res.Transitions > 0 {
		res.Nontrivial = 1
	}
	res.States = append(res.States, fmt.Sprintf("table=%s sessions=%d", w.table, len(w.truthAuth)))
	res.Sample = names
	return res
}

func C05Plan() *vlib.Plan {
	p := &vlib.Plan{
		Property: "C05", Level: "model_checking", Procs: 16,
		Rule:   "Bounded history enumeration on a real server.Server with commands A (auth/enc OPTIONAL, READ), B (auth REQUIRED, WRITE), C (auth+enc REQUIRED, DAEMON), D (raw), E (unregistered), F (registered raw, then re-registered authenticated with C's policy), G (registered authenticated, then re-registered raw), plus command numbers equal to B / C only in their low 32 bits (unknown commands), H (auth OPTIONAL, enc PREFERRED: encryption negotiated but not demanded - opened by alice, the unauthenticated and the key-skipping client), per-command policies and a switchable authorizer table, in two layouts (permissive default + a per-command answer for every command; strictest default + a per-command hook that returns nil for C so that C's policy arrives through the fallback - run for every history that mentions C; and permissive default + an FQUMapper, the authorizer table applying to the MAPPED names while a raw name would be allowed everything - run for every history that sets a table). Events: open a connection as {alice, bob (TOKEN), unauthenticated, plaintext, 'lurker' (lists TOKEN but holds no token: a method is pre-selected yet nothing ever runs), scripted key-skipping CLAIMTOBE client} with first command x; follow-on command x on the kept-alive connection; reconnect and explicitly resume the client's last session with command x; switch the authorizer table; raw send of x. All histories <= 3 events (quick: reduced alphabet; thorough: full alphabet) plus, in thorough, all histories of 4 events over a core alphabet (follow requires an open connection, resume requires a prior session). Plus all histories <= 3 over {open as alice / anonymous / 'alice-nc' / 'carol-nc' (TOKEN / CLAIMTOBE with no cipher in common: authenticated sessions whose key has no cipher / that have no key at all), a scripted requester without key or credentials naming one of their session ids in a resumption request, table switches}, against the default server and against a server configured with a session cache of its own. A monitor inside every handler records each dispatch; oracle: registered + right path (raw vs authenticated), authentication really ran on the wire for that session when the command requires it, stream really encrypted and canaries invisible when it requires encryption, identity currently authorized when a table is set; refused/unknown commands close the connection and nothing further runs. Non-trivial = history with >= 1 dispatch decision.",
		Assume: []string{"16 worker processes, each with its own process-global server cache", "ground truth for 'authenticated' = an authentication exchange was seen on the wire when the session was created"},
	}
	p.Gen = func(tier string, yield func(vlib.Case)) {
		// quick: a reduced alphabet at depth 3. thorough: the full alphabet at depth 3
		// plus a core alphabet at depth 4 (no raw sends - they do not depend on session
		// state - and the raw / unregistered command only opened by alice).
		full := c05Alphabet(tier)
		var reduced, core []c05Event
		for _, e := range full {
			if e.kind == "open" && (e.who == "bob" && e.cmd != cmdA || e.cmd == cmdE && e.who != "alice") {
				continue
			}
			reduced = append(reduced, e)
			if e.kind == "raw" || e.kind == "open" && (e.cmd == cmdD || e.cmd == cmdE) && e.who != "alice" || e.kind == "follow" && e.cmd == cmdE {
				continue
			}
			core = append(core, e)
		}
		D, ab := 3, reduced
		minLen := 1
		if tier == "thorough" {
			ab = full
		}
		p.Bounds = map[string]any{"history_depth": D, "alphabet": len(ab)}
		if tier == "thorough" {
			p.Bounds = map[string]any{"history_depth_full_alphabet": 3, "full_alphabet": len(full), "history_depth_core_alphabet": 4, "core_alphabet": len(core)}
		}
		var rec func(h []c05Event, open bool, sessions map[string]bool)
		rec = func(h []c05Event, open bool, sessions map[string]bool) {
			if len(h) >= minLen {
				hh := append([]c05Event(nil), h...)
				names := make([]string, len(hh))
				for i, e := range hh {
					names[i] = e.String()
				}
				yield(vlib.Case{ID: strings.Join(names, " "), Run: func() *vlib.Result { return c05Run(hh, "percmd") }})
				// the identity-mapping layout matters only where an authorizer table is set
				for _, e := range hh {
					if e.kind == "table" && e.tab != "" {
						yield(vlib.Case{ID: "mapped: " + strings.Join(names, " "), Run: func() *vlib.Result { return c05Run(hh, "mapped") }})
						break
					}
				}
				// the nil-fallback layout differs only where command C is involved
				for _, e := range hh {
					if e.cmd == cmdC {
						yield(vlib.Case{ID: "nilhook: " + strings.Join(names, " "), Run: func() *vlib.Result { return c05Run(hh, "nilhook") }})
						break
					}
				}
			}
			if len(h) == D {
				return
			}
			for _, e := range ab {
				no, ns := open, sessions
				switch e.kind {
				case "follow":
					if !open {
						continue
					}
				case "open":
					no = true
					if e.who != "keyskip" {
						ns = map[string]bool{}
						for k := range sessions {
							ns[k] = true
						}
						ns[e.who] = true
					}
				case "resume":
					if !sessions[e.who] {
						continue
					}
					no = true
				case "table", "raw":
					if len(h) > 0 && h[len(h)-1].kind == "table" && e.kind == "table" {
						continue
					}
					no = false
				}
				rec(append(h, e), no, ns)
			}
		}
		rec(nil, false, map[string]bool{})
		// somebody else's session id named by a requester without key or credentials, against a
		// server with a session cache of its own and against the default one: all histories <= 3
		// over a small alphabet of its own
		stealAb := []c05Event{
			{kind: "open", who: "alice-nc", cmd: cmdA}, {kind: "open", who: "carol-nc", cmd: cmdA}, {kind: "open", who: "carol-nc", cmd: cmdB}, {kind: "open", who: "alice", cmd: cmdB}, {kind: "open", who: "anon", cmd: cmdA},
			{kind: "steal", who: "alice-nc", cmd: cmdA}, {kind: "steal", who: "alice-nc", cmd: cmdB}, {kind: "steal", who: "carol-nc", cmd: cmdA}, {kind: "steal", who: "carol-nc", cmd: cmdB}, {kind: "steal", who: "carol-nc", cmd: cmdC}, {kind: "steal", who: "alice", cmd: cmdB}, {kind: "steal", who: "anon", cmd: cmdB},
			{kind: "table", tab: "T1"}, {kind: "table", tab: "T3"},
		}
		var srec func(h []c05Event, sessions map[string]bool)
		srec = func(h []c05Event, sessions map[string]bool) {
			nsteal := 0
			for _, e := range h {
				if e.kind == "steal" {
					nsteal++
				}
			}
			if nsteal > 0 {
				hh := append([]c05Event(nil), h...)
				names := make([]string, len(hh))
				for i, e := range hh {
					names[i] = e.String()
				}
				for _, layout := range []string{"owncache", "percmd"} {
					layout := layout
					yield(vlib.Case{ID: layout + ": " + strings.Join(names, " "), Run: func() *vlib.Result { return c05Run(hh, layout) }})
				}
			}
			if len(h) == 3 {
				return
			}
			for _, e := range stealAb {
				ns := sessions
				switch e.kind {
				case "open":
					ns = map[string]bool{e.who: true}
					for k := range sessions {
						ns[k] = true
					}
				case "steal":
					if !sessions[e.who] {
						continue
					}
				}
				srec(append(h, e), ns)
			}
		}
		srec(nil, map[string]bool{})
		if tier == "thorough" {
			// depth-4 histories over the core alphabet (shorter ones are covered above)
			D, ab, minLen = 4, core, 4
			rec(nil, false, map[string]bool{})
		}
	}
	return p
}
