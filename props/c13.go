package props

// C13 — decoding is total and bounded. Bounded structure-aware exhaustion: every
// decoder entry point is fed every input of a generated grammar (boundary
// integers in every length/count field, string shapes around the caps, every
// truncation, several framings, both encryption modes, all short raw strings).
// Inputs run in worker subprocesses under `ulimit -v` with a lowered maximum
// stack, so a panic, an out-of-memory abort, a stack overflow or a spin is
// observed by the parent and attributed to the input in flight.

import (
	"bufio"
	"bytes"
	"context"
	"encoding/binary"
	"fmt"
	"math"
	"os"
	"os/exec"
	"runtime"
	"runtime/debug"
	"strings"
	"sync/atomic"
	"time"

	"github.com/PelicanPlatform/classad/classad"
	"github.com/bbockelm/cedar/addresses"
	"github.com/bbockelm/cedar/message"
	"github.com/bbockelm/cedar/security"
	"github.com/bbockelm/cedar/stream"
	"github.com/bbockelm/cedar/version"
	"github.com/bbockelm/cedar/watch"

	"verif/netsim"
	"verif/refcodec"
	"verif/vlib"
)

type c13Input struct {
	entry  string // decoder entry point (violation key component)
	class  string // input class (violation key component)
	desc   string
	served int  // bytes offered to the decoder
	cap    int  // size cap passed to the API (0 = none)
	frame  int  // payload bytes per frame when the input was cut into equal frames (0 = n/a)
	over   bool // the input's strings exceed the cap: a capped reader must fail
	run    func() (consumed int, err error)
}

var c13Ints = []int64{math.MinInt64, -1<<31 - 1, -1 << 31, -1, 0, 1, 255, 4095, 4096, 4097, 1<<20 - 1, 1 << 20, 1<<20 + 1, 1<<31 - 1, 1 << 31, 1<<32 - 1, math.MaxInt64}

func intClass(v int64) string {
	switch {
	case v < 0:
		return "negative"
	case v == 0:
		return "zero"
	case v <= 4097:
		return "small"
	case v <= 1<<20+1:
		return "around-1MiB"
	}
	return "huge"
}

// framings of one payload
func c13Frame(payload []byte, how string, enc bool) []byte {
	var dir *refcodec.Dir
	if enc {
		dir, _ = refcodec.NewDir(testKey, [32]byte{}, [32]byte{})
		copy(dir.BaseIV[:], "c13-reference-iv")
	}
	mk := func(end byte, b []byte) []byte {
		if enc {
			return dir.Seal(end, b)
		}
		return refcodec.MkFrame(end, b)
	}
	var out []byte
	switch how {
	case "one":
		out = mk(1, payload)
	case "no-eom":
		out = mk(0, payload)
	case "4k":
		for off := 0; off < len(payload); off += 4096 {
			e := min(off+4096, len(payload))
			end := byte(0)
			if e == len(payload) {
				end = 1
			}
			out = append(out, mk(end, payload[off:e])...)
		}
		if len(payload) == 0 {
			out = mk(1, nil)
		}
	case "bytewise":
		if len(payload) > 600 {
			return c13Frame(payload, "one", enc)
		}
		for i := range payload {
			end := byte(0)
			if i == len(payload)-1 {
				end = 1
			}
			out = append(out, mk(end, payload[i:i+1])...)
		}
		if len(payload) == 0 {
			out = mk(1, nil)
		}
	}
	return out
}

func c13Stream(wire []byte, enc bool) (*stream.Stream, *netsim.Buf) {
	b := &netsim.Buf{R: wire}
	s := stream.NewStream(b)
	if enc {
		_ = s.SetSymmetricKey(testKey)
	}
	return s, b
}

// ---- suites ----

func c13SuiteStream(tier string) []c13Input {
	var in []c13Input
	ctx := context.Background()
	type sEntry struct {
		name string
		f    func(s *stream.Stream) error
	}
	entries := []sEntry{
		{"ReceiveFrame", func(s *stream.Stream) error { _, err := s.ReceiveFrame(ctx); return err }},
		{"ReceiveFrameWithEnd", func(s *stream.Stream) error { _, _, err := s.ReceiveFrameWithEnd(ctx); return err }},
		{"ReceiveCompleteMessage", func(s *stream.Stream) error { _, err := s.ReceiveCompleteMessage(ctx); return err }},
		{"StartMessageRead", func(s *stream.Stream) error { return s.StartMessageRead(ctx) }},
		{"GetSecret", func(s *stream.Stream) error { _, err := s.GetSecret(ctx); return err }},
	}
	add := func(class, desc string, wire []byte) {
		for _, e := range entries {
			for _, enc := range []bool{false, true} {
				name, f, enc, wire := e.name, e.f, enc, wire
				in = append(in, c13Input{entry: "stream." + name, class: class, desc: fmt.Sprintf("%s enc=%v", desc, enc), served: len(wire), run: func() (int, error) {
					s, b := c13Stream(wire, enc)
					err := f(s)
					return len(wire) - len(b.R), err
				}})
			}
		}
	}
	// all raw strings <= 2 bytes over all byte values would be 65k x 10; use the full byte for
	// length 1 and a 16-value alphabet for lengths 2..4
	alpha := []byte{0, 1, 2, 5, 10, 11, 16, 0x7f, 0x80, 0xff, 3, 4, 32, 48, 0x10, 0xfe}
	for b0 := 0; b0 < 256; b0++ {
		add("raw-1", fmt.Sprintf("raw %02x", b0), []byte{byte(b0)})
	}
	var rec func(p []byte)
	maxL := 3
	if tier == "thorough" {
		maxL = 4
	}
	rec = func(p []byte) {
		if len(p) >= 2 {
			add(fmt.Sprintf("raw-%d", len(p)), fmt.Sprintf("raw %x", p), append([]byte(nil), p...))
		}
		if len(p) == maxL {
			return
		}
		for _, a := range alpha {
			rec(append(p, a))
		}
	}
	rec(nil)
	// header boundary product
	for _, end := range []byte{0, 1, 2, 10, 11, 255} {
		for _, l := range []uint32{0, 1, 5, 15, 16, 17, 32, 4096, 1<<20 - 1, 1 << 20, 1<<20 + 1, 1<<31 - 1, 1 << 31, 1<<32 - 1} {
			for _, body := range []string{"none", "partial", "full"} {
				h := make([]byte, 5)
				h[0] = end
				binary.BigEndian.PutUint32(h[1:], l)
				w := h
				switch body {
				case "partial":
					w = append(w, bytes.Repeat([]byte{0x41}, int(min(uint32(7), l/2)))...)
				case "full":
					if l > 1<<20+1 {
						continue
					}
					w = append(w, bytes.Repeat([]byte{0x41}, int(l))...)
				}
				add(fmt.Sprintf("header-len=%s", intClass(int64(l))), fmt.Sprintf("end=%d len=%d body=%s", end, l, body), w)
			}
		}
	}
	// long runs of empty / tiny partial frames
	ns := []int{10, 1000, 200000}
	for _, n := range ns {
		for _, unit := range [][]byte{refcodec.MkFrame(0, nil), refcodec.MkFrame(0, []byte{7})} {
			w := bytes.Repeat(unit, n)
			add(fmt.Sprintf("partial-frame-run-%d", n), fmt.Sprintf("%d partial frames of %d bytes, no end", n, len(unit)-5), w)
			add(fmt.Sprintf("partial-frame-run-%d", n), fmt.Sprintf("%d partial frames of %d bytes + end", n, len(unit)-5), append(append([]byte(nil), w...), refcodec.MkFrame(1, nil)...))
		}
	}
	return in
}

type c13Field struct {
	kind string // int, str, bytes
}

func c13SuiteMessage(tier string) []c13Input {
	var in []c13Input
	ctx := context.Background()
	type getter struct {
		name string
		cap  int
		f    func(m *message.Message) error
	}
	getters := []getter{
		{"GetChar", 0, func(m *message.Message) error { _, err := m.GetChar(ctx); return err }},
		{"GetInt", 0, func(m *message.Message) error { _, err := m.GetInt(ctx); return err }},
		{"GetDouble", 0, func(m *message.Message) error { _, err := m.GetDouble(ctx); return err }},
		{"GetString", 0, func(m *message.Message) error { _, err := m.GetString(ctx); return err }},
		{"GetStringWithMaxSize(64)", 64, func(m *message.Message) error { _, err := m.GetStringWithMaxSize(ctx, 64); return err }},
		{"SkipString", 0, func(m *message.Message) error { return m.SkipString(ctx) }},
		{"GetRemainingBytes", 0, func(m *message.Message) error { _, err := m.GetRemainingBytes(ctx); return err }},
		{"GetClassAd", 0, func(m *message.Message) error { _, err := m.GetClassAd(ctx); return err }},
		{"GetClassAdWithMaxSize(4096)", 4096, func(m *message.Message) error { _, err := m.GetClassAdWithMaxSize(ctx, 4096); return err }},
		{"GetClassAdRaw", 0, func(m *message.Message) error { _, err := m.GetClassAdRaw(ctx); return err }},
		{"SkipClassAdRaw", 0, func(m *message.Message) error { return m.SkipClassAdRaw(ctx) }},
	}
	for _, n := range c13Ints {
		n := n
		getters = append(getters, getter{fmt.Sprintf("GetBytes(%s)", intClass(n)), 0, func(m *message.Message) error { _, err := m.GetBytes(ctx, int(n)); return err }})
	}
	var only func(name string) bool // when set, restricts add() to some getters
	add := func(class, desc string, payload []byte) {
		for _, g := range getters {
			if only != nil && !only(g.name) {
				continue
			}
			for _, enc := range []bool{false, true} {
				for _, how := range []string{"one", "bytewise", "no-eom", "4k"} {
					if how == "bytewise" && (len(payload) > 64 && tier != "thorough") {
						continue
					}
					if how == "4k" && len(payload) <= 4096 {
						continue
					}
					g, enc, how := g, enc, how
					fr := 0
					if how == "4k" {
						fr = 4096
					}
					in = append(in, c13Input{entry: "message." + g.name, class: class, desc: fmt.Sprintf("%s framing=%s enc=%v", desc, how, enc), served: len(payload) + 64, cap: g.cap, frame: fr, over: (strings.Contains(class, "secret-marker+") && !strings.HasSuffix(class, "+10B") || strings.HasPrefix(class, "ad-over-cap/")) && strings.HasPrefix(g.name, "GetClassAdWithMaxSize"), run: func() (int, error) {
						wire := c13Frame(payload, how, enc)
						s, b := c13Stream(wire, enc)
						err := g.f(message.NewMessageFromStream(s))
						return len(wire) - len(b.R), err
					}})
				}
			}
		}
	}
	type nstr struct {
		n string
		v []byte
	}
	strs := []nstr{
		{"empty", []byte{0}},
		{"short", []byte("Attr = 1\x00")},
		{"unterminated", []byte("Attr = \"never ends")},
		{"marker", []byte("ZKM\x00")},
		{"cap-1", append(bytes.Repeat([]byte{'a'}, 62), 0)},
		{"cap", append(bytes.Repeat([]byte{'a'}, 63), 0)},
		{"cap+1", append(bytes.Repeat([]byte{'a'}, 64), 0)},
		{"10xcap", append(bytes.Repeat([]byte{'a'}, 640), 0)},
		{"100KB", append(bytes.Repeat([]byte{'b'}, 100000), 0)},
	}
	// (i) an integer (length prefix / count) followed by each string shape, and every truncation
	for _, n := range c13Ints {
		for _, st := range strs {
			sn, sv := st.n, st.v
			pl := append(refcodec.EncInt(n), sv...)
			pl = append(pl, sv...)
			pl = append(pl, 0, 0)
			add("int="+intClass(n)+"+str="+sn, fmt.Sprintf("int %d then string %s x2", n, sn), pl)
		}
	}
	for cut := 0; cut <= 24; cut++ {
		pl := append(refcodec.EncInt(2), []byte("A = 1\x00B = \"x\"\x00\x00\x00")...)
		if cut < len(pl) {
			add("truncated-ad", fmt.Sprintf("valid 2-attribute ad cut at %d", cut), pl[:cut])
		}
	}
	// (ii) ClassAd shapes: count from the catalogue with few expressions present; secret marker then a huge secret
	for _, n := range c13Ints {
		pl := append(refcodec.EncInt(n), []byte("A = 1\x00MyT\x00TT\x00")...)
		add("ad-count="+intClass(n), fmt.Sprintf("ad with count %d and one expression", n), pl)
	}
	for _, sz := range []int{10, 5000, 900000} {
		pl := append(refcodec.EncInt(1), []byte("ZKM\x00")...)
		pl = append(pl, append(bytes.Repeat([]byte{'s'}, sz), 0)...)
		pl = append(pl, 0, 0)
		add(fmt.Sprintf("ad-secret-marker+%dB", sz), fmt.Sprintf("ad: marker then %d-byte secret", sz), pl)
	}
	// (ii') ads whose every item fits the cap but whose sum does not: k attributes (plain, or
	// each sent as marker + secret) of s bytes, in the plaintext and in the length-prefixed form
	for _, k := range []int{2, 5, 50} {
		for _, sz := range []int{200, 1000, 3000} {
			if k*sz <= 4096+512 {
				continue
			}
			for _, secret := range []bool{false, true} {
				for _, lp := range []bool{false, true} {
					str := func(b []byte, v string) []byte {
						if lp {
							b = append(b, refcodec.EncInt(int64(len(v)+1))...)
						}
						return append(append(b, v...), 0)
					}
					pl := refcodec.EncInt(int64(k))
					for i := 0; i < k; i++ {
						if secret {
							pl = str(pl, "ZKM")
						}
						pl = str(pl, fmt.Sprintf("Attr%d = \"%s\"", i, strings.Repeat("x", sz)))
					}
					pl = str(str(pl, ""), "")
					add(fmt.Sprintf("ad-over-cap/%dx%dB/secret=%v/lenprefixed=%v", k, sz, secret, lp), fmt.Sprintf("ad of %d attributes of %d bytes (each below the cap, the sum above it)", k, sz), pl)
				}
			}
		}
	}
	// (ii'') every length-prefixed string of <= 4 bytes over {Z K M NUL =} as the only
	// expression of an ad (the in-band secret marker is "ZKM"; with and without its
	// terminator, prefixes, and what follows it), through the string and ClassAd readers
	only = func(n string) bool {
		return strings.Contains(n, "ClassAd") || n == "GetString" || n == "SkipString" || strings.HasPrefix(n, "GetStringWithMaxSize")
	}
	{
		alpha := []byte{'Z', 'K', 'M', 0, '='}
		var rec func(p []byte)
		rec = func(p []byte) {
			pl := refcodec.EncInt(1)
			pl = append(pl, refcodec.EncInt(int64(len(p)))...)
			pl = append(pl, p...)
			// a well-formed secret and the two type strings follow, all length-prefixed
			pl = append(pl, refcodec.EncString("S = 1", true)...)
			pl = append(pl, refcodec.EncString("", true)...)
			pl = append(pl, refcodec.EncString("", true)...)
			add(fmt.Sprintf("ad-lp-short-expr/len=%d", len(p)), fmt.Sprintf("ad whose only expression is the length-prefixed string %q", p), pl)
			if len(p) == 4 {
				return
			}
			for _, a := range alpha {
				rec(append(append([]byte(nil), p...), a))
			}
		}
		rec(nil)
	}
	only = nil
	// (iii) many tiny expressions
	{
		pl := refcodec.EncInt(20000)
		for i := 0; i < 20000; i++ {
			pl = append(pl, []byte("a=1\x00")...)
		}
		pl = append(pl, 0, 0)
		add("ad-20000-exprs", "ad with 20000 tiny expressions", pl)
	}
	return in
}

func c13SuiteText(tier string) []c13Input {
	var in []c13Input
	L := 5
	if tier == "thorough" {
		L = 6
	}
	type parser struct {
		name  string
		alpha []string
		f     func(s string) error
	}
	cache := security.NewSessionCache()
	parsers := []parser{
		{"ParseClaimIDStrict", []string{"#", "[", "]", "<", ">", "a", "1", ";", "=", "\"", " ", ":"}, func(s string) error { security.ParseClaimIDStrict(s); return nil }},
		{"ImportSecSessionInfo", []string{"[", "]", ";", "=", "\"", "a", "1", "E", ".", ",", " ", "\\"}, func(s string) error { _, err := security.ImportSecSessionInfo(s); return err }},
		{"ImportClaimSession", []string{"#", "[", "]", ";", "=", "\"", "a", "1", "<", ">", "f", "C"}, func(s string) error {
			_, err := security.ImportClaimSession(cache, "<1.2.3.4:5>#1#2#"+s, security.ClaimSessionOptions{})
			return err
		}},
		{"ParseSinful", []string{"<", ">", ":", "?", "&", "=", "%", "1", "a", "[", "]", "#"}, func(s string) error { _, err := addresses.ParseSinful(s); return err }},
		{"ParseHTCondorAddress", []string{"<", ">", ":", "?", "&", "=", "%", "1", "a", "[", "]", "#"}, func(s string) error { addresses.ParseHTCondorAddress(s); return nil }},
		{"SplitCCBContact", []string{"<", ">", ":", "#", "1", "a", " ", "[", "]", "?", ".", "-"}, func(s string) error { addresses.SplitCCBContact(s); return nil }},
		{"version.Parse", []string{"$", "C", ":", " ", "1", "9", ".", "a", "-", "0", "v", "\n"}, func(s string) error { version.Parse(s); version.Parse("$CondorVersion: " + s + " $"); return nil }},
		{"watch.Decode", []string{"a", "=", "+", "/", "-", "_", "A", "0", " ", "%", "\\", "\""}, func(s string) error {
			ad := classad.New()
			_ = ad.Set("Cursor", s)
			_ = ad.Set("AdType", s)
			_ = ad.Set("Kind", s)
			_ = ad.Set("Key", s)
			_, _, _, _ = watch.DecodeRequest(ad)
			_, _, _, _ = watch.DecodeHeader(ad)
			return nil
		}},
	}
	for _, p := range parsers {
		p := p
		// one input per 2-symbol prefix: batch of all strings with that prefix
		for _, a := range append([]string{""}, p.alpha...) {
			for _, b := range append([]string{""}, p.alpha...) {
				if a == "" && b != "" {
					continue
				}
				pre := a + b
				in = append(in, c13Input{entry: "text." + p.name, class: "all-strings", desc: fmt.Sprintf("all strings <= %d over %d symbols with prefix %q", L, len(p.alpha), pre), served: 4096, run: func() (int, error) {
					var rec func(s string, d int)
					rec = func(s string, d int) {
						_ = p.f(s)
						if d == L {
							return
						}
						for _, c := range p.alpha {
							rec(s+c, d+1)
						}
					}
					d0 := 0
					if a != "" {
						d0++
					}
					if b != "" {
						d0++
					}
					if d0 < 2 {
						_ = p.f(pre)
						return 0, nil
					}
					rec(pre, d0)
					return 0, nil
				}})
			}
		}
	}
	// crypto-state blob: length fields from the catalogue
	in = append(in, c13Input{entry: "stream.NewStreamWithCryptoState", class: "blob-fields", desc: "blob with every 16-bit length value in each variable field, all truncations", served: 200, run: func() (int, error) {
		base := append([]byte("CDRX\x00\x01\x3f"), make([]byte, 32+16+16+4+4)...)
		for f := 0; f < 3; f++ {
			for _, l := range []int{0, 1, 31, 32, 33, 255, 256, 65535} {
				b := append([]byte(nil), base...)
				for i := 0; i < f; i++ {
					b = append(b, 0, 0)
				}
				b = append(b, byte(l>>8), byte(l))
				b = append(b, make([]byte, min(l, 40))...)
				for cut := len(base); cut <= len(b); cut++ {
					_, _ = stream.NewStreamWithCryptoState(&netsim.Buf{}, b[:cut])
				}
			}
		}
		return 0, nil
	}})
	return in
}

// handshake readers through the real entry points against scripted peers
func c13SuiteHandshake(tier string) []c13Input {
	var in []c13Input
	adWith := func(count int64, attrs *wireAd) []byte {
		b := attrs.encode(false)
		binary.BigEndian.PutUint64(b[:8], uint64(count))
		return b
	}
	goodServerAd := func(auth string) *wireAd {
		k := newPeerKeys()
		a := newWireAd()
		a.setS("AuthMethods", "CLAIMTOBE").setS("AuthMethodsList", "CLAIMTOBE,TOKEN,SSL,FS").setS("CryptoMethods", "AES").setS("CryptoMethodsList", "AES")
		a.setS("Authentication", auth).setS("Encryption", "NO").setS("Integrity", "NO").setS("ECDHPublicKey", k.pubB64).setS("Enact", "YES")
		return a
	}
	clientRun := func(methods []security.AuthMethod, script func(p *peerConn)) func() (int, error) {
		return func() (int, error) {
			cc := baseCfg(security.SecurityPreferred, security.SecurityOptional, methods, []security.CryptoMethod{security.CryptoAES}, false)
			cc.Command = 5
			r := hsRun(hsOpts{ClientCfg: cc, Watchdog: 120 * time.Second, ServerScript: func(e *netsim.End) error {
				p := &peerConn{end: e}
				if _, err := p.recvMsg(); err != nil {
					return err
				}
				script(p)
				return fmt.Errorf("script done")
			}})
			if r.C.Panic != "" {
				panic("endpoint panic: " + r.C.Panic)
			}
			if r.Timeout {
				return 0, fmt.Errorf("HANG")
			}
			return 0, r.C.Err
		}
	}
	serverRunSSL := func(script func(p *peerConn)) func() (int, error) {
		return func() (int, error) {
			sc := baseCfg(security.SecurityRequired, security.SecurityNever, []security.AuthMethod{security.AuthSSL, security.AuthSciTokens}, nil, true)
			r := hsRun(hsOpts{ServerCfg: sc, Watchdog: 120 * time.Second, ClientScript: func(e *netsim.End) error {
				script(&peerConn{end: e})
				return fmt.Errorf("script done")
			}})
			if r.S.Neg != nil {
				security.GetSessionCache().Invalidate(r.S.Neg.SessionId)
			}
			if r.S.Panic != "" {
				panic("endpoint panic: " + r.S.Panic)
			}
			if r.Timeout {
				return 0, fmt.Errorf("HANG")
			}
			return 0, r.S.Err
		}
	}
	serverRun := func(script func(p *peerConn)) func() (int, error) {
		return func() (int, error) {
			sc := baseCfg(security.SecurityPreferred, security.SecurityOptional, []security.AuthMethod{mCTB, mTOK, security.AuthSSL}, []security.CryptoMethod{security.CryptoAES}, true)
			r := hsRun(hsOpts{ServerCfg: sc, Watchdog: 120 * time.Second, ClientScript: func(e *netsim.End) error {
				script(&peerConn{end: e})
				return fmt.Errorf("script done")
			}})
			if r.S.Neg != nil {
				security.GetSessionCache().Invalidate(r.S.Neg.SessionId)
			}
			if r.S.Panic != "" {
				panic("endpoint panic: " + r.S.Panic)
			}
			if r.Timeout {
				return 0, fmt.Errorf("HANG")
			}
			return 0, r.S.Err
		}
	}
	for _, n := range c13Ints {
		n := n
		ic := intClass(n)
		// client reads: server ad count, method reply, exchangeKey fields, post-auth ad count, resumption reply count, CLAIMTOBE ack, SSL message length, TOKEN step 2, FS path
		in = append(in, c13Input{entry: "client.serverAd", class: "count=" + ic, desc: fmt.Sprintf("server ad with count %d", n), served: 400, cap: 4096, run: clientRun([]security.AuthMethod{mCTB}, func(p *peerConn) {
			_ = p.sendMsg(adWith(n, goodServerAd("YES")), false)
		})})
		in = append(in, c13Input{entry: "client.methodReply", class: "value=" + ic, desc: fmt.Sprintf("server selects method bitmask %d", n), served: 400, run: clientRun([]security.AuthMethod{mCTB}, func(p *peerConn) {
			_ = p.sendMsg(goodServerAd("YES").encode(false), false)
			_, _ = p.recvMsg()
			_ = p.sendMsg(refcodec.EncInt(n), false)
		})})
		for fi, fname := range []string{"hasKey", "keyLength", "protocol", "duration", "inputLen"} {
			fi, fname := fi, fname
			in = append(in, c13Input{entry: "client.exchangeKey", class: fname + "=" + ic, desc: fmt.Sprintf("exchangeKey message with %s=%d", fname, n), served: 500, run: clientRun([]security.AuthMethod{mCTB}, func(p *peerConn) {
				_ = p.sendMsg(goodServerAd("YES").encode(false), false)
				_, _ = p.recvMsg()
				_ = p.sendMsg(refcodec.EncInt(2), false)
				_, _ = p.recvMsg() // claimtobe user
				_ = p.sendMsg(refcodec.EncInt(1), false)
				vals := []int64{1, 16, 3, 60, 16}
				vals[fi] = n
				var pl []byte
				for _, v := range vals {
					pl = append(pl, refcodec.EncInt(v)...)
				}
				pl = append(pl, bytes.Repeat([]byte{9}, 16)...)
				_ = p.sendMsg(pl, false)
			})})
		}
		in = append(in, c13Input{entry: "client.postAuthAd", class: "count=" + ic, desc: fmt.Sprintf("post-auth ad with count %d", n), served: 500, cap: 4096, run: clientRun([]security.AuthMethod{mCTB}, func(p *peerConn) {
			_ = p.sendMsg(goodServerAd("NO").encode(false), false)
			_ = p.sendMsg(adWith(n, newWireAd().setS("ReturnCode", "AUTHORIZED").setS("Sid", "x")), false)
		})})
		in = append(in, c13Input{entry: "client.sslMessage", class: "length=" + ic, desc: fmt.Sprintf("SSL handshake message with length %d", n), served: 500, run: clientRun([]security.AuthMethod{security.AuthSSL}, func(p *peerConn) {
			_ = p.sendMsg(goodServerAd("YES").encode(false), false)
			_, _ = p.recvMsg()
			_ = p.sendMsg(refcodec.EncInt(256), false)
			_ = p.sendMsg(refcodec.EncInt(0), false) // server status OK
			_, _ = p.recvMsg()                       // client status
			_, _ = p.recvMsg()                       // ClientHello
			_ = p.sendMsg(append(append(refcodec.EncInt(0), refcodec.EncInt(n)...), bytes.Repeat([]byte{0x16}, 32)...), false)
		})})
		in = append(in, c13Input{entry: "client.fsPath", class: "len=" + ic, desc: fmt.Sprintf("FS method: path message then result %d", n), served: 500, cap: 4096, run: clientRun([]security.AuthMethod{security.AuthFS}, func(p *peerConn) {
			_ = p.sendMsg(goodServerAd("YES").encode(false), false)
			_, _ = p.recvMsg()
			_ = p.sendMsg(refcodec.EncInt(4), false)
			_ = p.sendMsg(refcodec.EncString("/nonexistent-verif/FS_1", false), false)
			_, _ = p.recvMsg()
			_ = p.sendMsg(refcodec.EncInt(n), false)
		})})
		for fi, fname := range []string{"status", "idALen", "idBLen", "raLen", "rbLen", "hktLen"} {
			fi, fname := fi, fname
			in = append(in, c13Input{entry: "client.tokenStep2", class: fname + "=" + ic, desc: fmt.Sprintf("TOKEN step 2 with %s=%d", fname, n), served: 1200, run: clientRun([]security.AuthMethod{mTOK}, func(p *peerConn) {
				_ = p.sendMsg(goodServerAd("YES").setS("TrustDomain", "verif.domain").setS("IssuerKeys", "POOL").encode(false), false)
				_, _ = p.recvMsg()
				_ = p.sendMsg(refcodec.EncInt(2048), false)
				_, _ = p.recvMsg() // step 1
				v := []int64{0, 18, 19, 256, 256, 20}
				v[fi] = n
				pl := refcodec.EncInt(v[0])
				pl = append(pl, refcodec.EncInt(v[1])...)
				pl = append(pl, []byte("alice@verif.domain\x00")...)
				pl = append(pl, refcodec.EncInt(v[2])...)
				pl = append(pl, []byte("server@verif.domain\x00")...)
				pl = append(pl, refcodec.EncInt(v[3])...)
				pl = append(pl, bytes.Repeat([]byte{1}, 256)...)
				pl = append(pl, refcodec.EncInt(v[4])...)
				pl = append(pl, bytes.Repeat([]byte{2}, 256)...)
				pl = append(pl, refcodec.EncInt(v[5])...)
				pl = append(pl, bytes.Repeat([]byte{3}, 20)...)
				_ = p.sendMsg(pl, false)
			})})
		}
		// server reads: client ad count, bitmask, CLAIMTOBE fields, TOKEN step 1 fields, resumption
		cad := func() *wireAd {
			k := newPeerKeys()
			a := newWireAd()
			a.setS("AuthMethods", "CLAIMTOBE,TOKEN,SSL").setS("CryptoMethods", "AES").setS("Authentication", "REQUIRED").setS("Encryption", "OPTIONAL").setS("Integrity", "OPTIONAL")
			a.setI("Command", 5).setS("ECDHPublicKey", k.pubB64)
			return a
		}
		in = append(in, c13Input{entry: "server.clientAd", class: "count=" + ic, desc: fmt.Sprintf("client ad with count %d", n), served: 400, cap: 4096, run: serverRun(func(p *peerConn) {
			_ = p.sendMsg(append(refcodec.EncInt(dcAuthenticate), adWith(n, cad())...), false)
		})})
		in = append(in, c13Input{entry: "server.command", class: "value=" + ic, desc: fmt.Sprintf("leading command integer %d", n), served: 400, run: serverRun(func(p *peerConn) {
			_ = p.sendMsg(append(refcodec.EncInt(n), cad().encode(false)...), false)
		})})
		in = append(in, c13Input{entry: "server.bitmask", class: "value=" + ic, desc: fmt.Sprintf("client bitmask %d", n), served: 400, run: serverRun(func(p *peerConn) {
			_ = p.sendMsg(append(refcodec.EncInt(dcAuthenticate), cad().encode(false)...), false)
			_, _ = p.recvMsg()
			_ = p.sendMsg(refcodec.EncInt(n), false)
			_, _ = p.recvMsg()
		})})
		// SSL / SCITOKENS as a client: the length field of a tunnelled TLS message, and the
		// 4-byte SciToken size the server reads over the established TLS connection
		sslPrelude := func(p *peerConn, bit int64, methods string) bool {
			a := newWireAd()
			a.setS("AuthMethods", methods).setS("CryptoMethods", "").setS("Authentication", "REQUIRED").setS("Encryption", "NEVER").setS("Integrity", "NEVER")
			a.setI("Command", 5)
			if p.sendMsg(append(refcodec.EncInt(dcAuthenticate), a.encode(false)...), false) != nil {
				return false
			}
			if _, err := p.recvMsg(); err != nil {
				return false
			}
			if p.sendMsg(refcodec.EncInt(bit), false) != nil {
				return false
			}
			_, err := p.recvMsg()
			return err == nil
		}
		in = append(in, c13Input{entry: "server.sslMessage", class: "length=" + ic, desc: fmt.Sprintf("tunnelled TLS message announcing %d bytes", n), served: 600, run: serverRunSSL(func(p *peerConn) {
			if sslPrelude(p, 256, "SSL") {
				_, _ = sslScriptedClient(p, n&0x7fffffffffffffff)
			}
		})})
		in = append(in, c13Input{entry: "server.sciTokenSize", class: "size=" + intClass(int64(uint32(n))), desc: fmt.Sprintf("SciToken announced as %d bytes, 3 sent", uint32(n)), served: 8000, run: serverRunSSL(func(p *peerConn) {
			if !sslPrelude(p, 4096, "SCITOKENS") {
				return
			}
			tc, err := sslScriptedClient(p, -1)
			if err != nil {
				return
			}
			sz := uint32(n)
			_, _ = tc.Write([]byte{byte(sz >> 24), byte(sz >> 16), byte(sz >> 8), byte(sz), 'a', 'b', 'c'})
			_, _ = p.recvMsg()
		})})
		in = append(in, c13Input{entry: "server.claimToBe", class: "status=" + ic, desc: fmt.Sprintf("CLAIMTOBE status %d + 2000-byte name", n), served: 2500, cap: 1024, run: serverRun(func(p *peerConn) {
			_ = p.sendMsg(append(refcodec.EncInt(dcAuthenticate), cad().encode(false)...), false)
			_, _ = p.recvMsg()
			_ = p.sendMsg(refcodec.EncInt(2), false)
			_, _ = p.recvMsg()
			_ = p.sendMsg(append(refcodec.EncInt(n), refcodec.EncString(strings.Repeat("u", 2000), false)...), false)
		})})
		for fi, fname := range []string{"status", "idLen", "raLen"} {
			fi, fname := fi, fname
			in = append(in, c13Input{entry: "server.tokenStep1", class: fname + "=" + ic, desc: fmt.Sprintf("TOKEN step 1 with %s=%d", fname, n), served: 1500, run: serverRun(func(p *peerConn) {
				_ = p.sendMsg(append(refcodec.EncInt(dcAuthenticate), cad().encode(false)...), false)
				_, _ = p.recvMsg()
				_ = p.sendMsg(refcodec.EncInt(2048), false)
				_, _ = p.recvMsg()
				v := []int64{0, 18, 256}
				v[fi] = n
				tok := goodToken("alice@verif.domain")
				tok = tok[:strings.LastIndex(tok, ".")]
				pl := refcodec.EncInt(v[0])
				pl = append(pl, refcodec.EncInt(v[1])...)
				pl = append(pl, []byte("alice@verif.domain\x00")...)
				pl = append(pl, []byte(tok+"\x00")...)
				pl = append(pl, refcodec.EncInt(v[2])...)
				pl = append(pl, bytes.Repeat([]byte{1}, 256)...)
				_ = p.sendMsg(pl, false)
				_, _ = p.recvMsg()
			})})
		}
		in = append(in, c13Input{entry: "server.resumeRequest", class: "count=" + ic, desc: fmt.Sprintf("resumption request ad with count %d", n), served: 300, cap: 4096, run: serverRun(func(p *peerConn) {
			a := newWireAd().setI("Command", 5).setS("UseSession", "YES").setS("Sid", "nope").set("ResumeResponse", "true")
			_ = p.sendMsg(append(refcodec.EncInt(dcAuthenticate), adWith(n, a)...), false)
			_, _ = p.recvMsg()
		})})
	}
	// oversized handshake ads sent in 16 KiB frames: a reader with a 4 KiB cap must stop taking
	// bytes off the connection after the cap plus a frame or two, whichever ad it is reading
	sendFramed := func(p *peerConn, payload []byte) {
		const fr = 16384
		for off := 0; off < len(payload); off += fr {
			end, flag := off+fr, byte(0)
			if end >= len(payload) {
				end, flag = len(payload), 1
			}
			if _, err := p.end.Write(refcodec.MkFrame(flag, payload[off:end])); err != nil {
				return
			}
		}
	}
	for _, sz := range []int{200000, 900000} {
		sz := sz
		big := func(a *wireAd) []byte { return a.setS("Pad", strings.Repeat("p", sz)).encode(false) }
		in = append(in, c13Input{entry: "client.serverAd", class: fmt.Sprintf("framed-oversize-%d", sz), desc: fmt.Sprintf("server ad with a %d-byte attribute in 16 KiB frames", sz), served: sz + 400, cap: 4096, frame: 16384, run: func() (int, error) {
			cc := baseCfg(security.SecurityPreferred, security.SecurityOptional, []security.AuthMethod{mCTB}, []security.CryptoMethod{security.CryptoAES}, false)
			cc.Command = 5
			r := hsRun(hsOpts{ClientCfg: cc, Watchdog: 120 * time.Second, ServerScript: func(e *netsim.End) error {
				p := &peerConn{end: e}
				if _, err := p.recvMsg(); err != nil {
					return err
				}
				sendFramed(p, big(goodServerAd("YES")))
				return fmt.Errorf("script done")
			}})
			return r.C.End.BytesRead, r.C.Err
		}})
		in = append(in, c13Input{entry: "client.resumeReply", class: fmt.Sprintf("framed-oversize-%d", sz), desc: fmt.Sprintf("reply to a resumption request: AUTHORIZED with a %d-byte attribute in 16 KiB frames", sz), served: sz + 400, cap: 4096, frame: 16384, run: func() (int, error) {
			cache := security.NewSessionCache()
			mc, err := security.MintClaimSession(cache, security.MintClaimOptions{Sinful: "<" + hsServerAddr + ">", Birthdate: 1700000000, SequenceNum: 9})
			if err != nil {
				return 0, nil
			}
			cc := baseCfg(security.SecurityOptional, security.SecurityOptional, nil, []security.CryptoMethod{security.CryptoAES}, false)
			cc.SessionCache, cc.SessionID, cc.Command = cache, mc.SessionID(), 5
			r := hsRun(hsOpts{ClientCfg: cc, Watchdog: 120 * time.Second, ServerScript: func(e *netsim.End) error {
				p := &peerConn{end: e}
				if _, err := p.recvMsg(); err != nil {
					return err
				}
				sendFramed(p, big(newWireAd().setS("ReturnCode", "AUTHORIZED").setS("Sid", mc.SessionID())))
				return fmt.Errorf("script done")
			}})
			return r.C.End.BytesRead, r.C.Err
		}})
		in = append(in, c13Input{entry: "server.clientAd", class: fmt.Sprintf("framed-oversize-%d", sz), desc: fmt.Sprintf("client ad with a %d-byte attribute in 16 KiB frames", sz), served: sz + 400, cap: 4096, frame: 16384, run: func() (int, error) {
			sc := baseCfg(security.SecurityPreferred, security.SecurityOptional, []security.AuthMethod{mCTB}, []security.CryptoMethod{security.CryptoAES}, true)
			r := hsRun(hsOpts{ServerCfg: sc, Watchdog: 120 * time.Second, ClientScript: func(e *netsim.End) error {
				p := &peerConn{end: e}
				sendFramed(p, append(refcodec.EncInt(dcAuthenticate), big(newWireAd().setS("AuthMethods", "CLAIMTOBE"))...))
				return fmt.Errorf("script done")
			}})
			if r.S.Neg != nil {
				security.GetSessionCache().Invalidate(r.S.Neg.SessionId)
			}
			return r.S.End.BytesRead, r.S.Err
		}})
	}
	// oversized handshake ads (bounded reader must stop at its cap)
	for _, sz := range []int{4000, 5000, 200000, 900000} {
		sz := sz
		in = append(in, c13Input{entry: "client.serverAd", class: fmt.Sprintf("oversize-%d", sz), desc: fmt.Sprintf("server ad with a %d-byte attribute", sz), served: sz + 400, cap: 4096, run: clientRun([]security.AuthMethod{mCTB}, func(p *peerConn) {
			_ = p.sendMsg(goodServerAd("YES").setS("Pad", strings.Repeat("p", sz)).encode(false), false)
		})})
		in = append(in, c13Input{entry: "client.serverAd", class: fmt.Sprintf("secret-marker-%d", sz), desc: fmt.Sprintf("server ad with the secret marker followed by %d bytes", sz), served: sz + 400, cap: 4096, run: clientRun([]security.AuthMethod{mCTB}, func(p *peerConn) {
			pl := refcodec.EncInt(1)
			pl = append(pl, []byte("ZKM\x00")...)
			pl = append(pl, append(bytes.Repeat([]byte{'s'}, sz), 0)...)
			pl = append(pl, 0, 0)
			_ = p.sendMsg(pl, false)
		})})
		in = append(in, c13Input{entry: "server.clientAd", class: fmt.Sprintf("oversize-%d", sz), desc: fmt.Sprintf("client ad with a %d-byte attribute", sz), served: sz + 400, cap: 4096, run: serverRun(func(p *peerConn) {
			a := newWireAd().setS("AuthMethods", "CLAIMTOBE").setS("Pad", strings.Repeat("p", sz))
			_ = p.sendMsg(append(refcodec.EncInt(dcAuthenticate), a.encode(false)...), false)
		})})
	}
	return in
}

var c13Suites = map[string]func(string) []c13Input{
	"stream": c13SuiteStream, "message": c13SuiteMessage, "text": c13SuiteText, "handshake": c13SuiteHandshake,
}

// ---- worker ----

// C13Worker runs inputs [lo,hi) of a suite, printing a line protocol on stdout.
func C13Worker(spec string) {
	var suite, tier string
	var lo, hi int
	parts := strings.Split(spec, ":")
	suite, tier = parts[0], parts[1]
	fmt.Sscanf(parts[2], "%d", &lo)
	fmt.Sscanf(parts[3], "%d", &hi)
	debug.SetMaxStack(16 << 20)
	inputs := c13Suites[suite](tier)
	entryFilter := ""
	if len(parts) > 4 {
		entryFilter = parts[4]
	}
	skip := map[string]bool{}
	for _, k := range strings.Split(os.Getenv("VERIF_C13_SKIP"), "\x1f") {
		skip[k] = true
	}
	out := bufio.NewWriter(os.Stdout)
	for i := lo; i < hi && i < len(inputs); i++ {
		in := inputs[i]
		if entryFilter != "" && in.entry != entryFilter {
			continue
		}
		if skip[in.entry+"|"+in.class] {
			fmt.Fprintf(out, "SKIP %d\n", i)
			continue
		}
		fmt.Fprintf(out, "START %d\n", i)
		out.Flush()
		func() {
			defer func() {
				if x := recover(); x != nil {
					fmt.Fprintf(out, "VIOL %d panic %s\n", i, strings.ReplaceAll(fmt.Sprint(x), "\n", " "))
				}
			}()
			var m0, m1 runtime.MemStats
			runtime.ReadMemStats(&m0)
			consumed, err := in.run()
			runtime.ReadMemStats(&m1)
			alloc := int64(m1.TotalAlloc - m0.TotalAlloc)
			budget := int64(256*(in.served+in.cap)) + 4<<20
			if strings.HasPrefix(in.entry, "text.") {
				budget = 1 << 40
			}
			if strings.HasPrefix(in.entry, "client.") || strings.HasPrefix(in.entry, "server.") {
				budget += 8 << 20 // two endpoints, key generation, logging
			}
			if alloc > budget {
				fmt.Fprintf(out, "VIOL %d alloc allocated %d bytes for %d bytes served (cap %d; budget %d)\n", i, alloc, in.served, in.cap, budget)
			}
			if in.cap > 0 && consumed > in.cap+(1<<20)+64 && strings.HasPrefix(in.entry, "message.") {
				fmt.Fprintf(out, "VIOL %d cap consumed %d bytes with a cap of %d\n", i, consumed, in.cap)
			}
			if in.cap > 0 && in.frame > 0 && consumed > in.cap+3*(in.frame+37)+64 {
				fmt.Fprintf(out, "VIOL %d cap consumed %d bytes from %d-byte frames with a cap of %d: the capped reader kept reading past its cap\n", i, consumed, in.frame, in.cap)
			}
			if in.over && err == nil {
				fmt.Fprintf(out, "VIOL %d cap a value larger than the cap (%d) was accepted by the capped reader\n", i, in.cap)
			}
			if err != nil && err.Error() == "HANG" {
				fmt.Fprintf(out, "VIOL %d hang endpoint did not return within 120 s\n", i)
			}
			oc := "error"
			if err == nil {
				oc = "accepted"
			}
			fmt.Fprintf(out, "OK %d %s %d\n", i, oc, alloc)
		}()
		out.Flush()
	}
}

// c13RunChunk runs one chunk in worker subprocesses, restarting after aborts.
func c13RunChunk(suite, tier string, lo, hi int, entry string, inputs []c13Input) *vlib.Result {
	res := &vlib.Result{}
	self, _ := os.Executable()
	var skipKeys []string
	aborts := 0
	for lo < hi {
		if aborts >= 4 {
			// every abort costs a worker restart (suite regeneration); a tree that aborts this often
			// has already produced its violations - the rest of the chunk is reported as skipped
			res.Skipped += hi - lo
			break
		}
		cmd := exec.Command("sh", "-c", `ulimit -v 6291456 2>/dev/null; exec "$0" C13 worker`, self)
		cmd.Env = append(os.Environ(), fmt.Sprintf("VERIF_C13_WORKER=%s:%s:%d:%d:%s", suite, tier, lo, hi, entry), "GOMAXPROCS=2", "VERIF_C13_SKIP="+strings.Join(skipKeys, "\x1f"))
		var stderr bytes.Buffer
		cmd.Stderr = &stderr
		stdout, _ := cmd.StdoutPipe()
		if err := cmd.Start(); err != nil {
			res.Violate("C13/harness", "cannot start worker: %v", err)
			return res
		}
		var curA atomic.Int64
		curA.Store(-1)
		done := make(chan struct{})
		progress := make(chan int, 1024)
		go func() {
			sc := bufio.NewScanner(stdout)
			sc.Buffer(make([]byte, 1<<20), 1<<20)
			for sc.Scan() {
				f := strings.SplitN(sc.Text(), " ", 4)
				var idx int
				if len(f) >= 2 {
					fmt.Sscanf(f[1], "%d", &idx)
				}
				switch f[0] {
				case "START":
					curA.Store(int64(idx))
					progress <- idx
				case "SKIP":
					res.Skipped++
					lo = idx + 1
				case "OK":
					res.Evals++
					res.Nontrivial++
					if len(f) >= 3 {
						res.Outcome(strings.SplitN(inputs[idx].entry, ".", 2)[0] + "-" + f[2])
					}
					curA.Store(-1)
					lo = idx + 1
				case "VIOL":
					in := inputs[idx]
					res.Violate(fmt.Sprintf("C13/%s/%s/%s", f[2], in.entry, in.class), "input #%d of suite %s (%s): %s", idx, suite, in.desc, f[3])
				}
			}
			close(done)
		}()
		// No-progress watchdog. Wall-clock time alone would misfire on a loaded
		// machine (a descheduled worker makes no progress either), so an input counts
		// as spinning when the worker has burnt 15 s of CPU on it, or has been on it for
		// 5 minutes of wall-clock time (blocked for good). Between inputs (suite
		// generation at start-up) only a 20-minute limit applies.
		killed := false
		tick := time.NewTicker(time.Second)
		inFlight := false
		startWall, startCPU := time.Now(), procCPU(cmd.Process.Pid)
	wait:
		for {
			select {
			case <-done:
				break wait
			case <-progress:
				inFlight = true
				startWall, startCPU = time.Now(), procCPU(cmd.Process.Pid)
			case <-tick.C:
				if curA.Load() < 0 {
					if inFlight {
						inFlight = false
						startWall = time.Now()
					}
					if time.Since(startWall) > 20*time.Minute {
						killed = true
						_ = cmd.Process.Kill()
						<-done
						break wait
					}
					continue
				}
				if procCPU(cmd.Process.Pid)-startCPU >= 15 || time.Since(startWall) > 5*time.Minute {
					killed = true
					_ = cmd.Process.Kill()
					<-done
					break wait
				}
			}
		}
		tick.Stop()
		err := cmd.Wait()
		cur := int(curA.Load())
		if cur >= 0 {
			// the worker died (or was killed) while input `cur` was in flight
			in := inputs[cur]
			why := "aborted"
			se := stderr.String()
			switch {
			case killed:
				why = "spin"
			case strings.Contains(se, "stack overflow") || strings.Contains(se, "stack exceeds"):
				why = "stack-overflow"
			}
			// (historical note) an abort used to cover both the Go runtime giving up under the address-space limit and the
			// kernel killing the worker; which of the two happens depends on the machine's load,
			// so they share one key (the detail is in the message)
			detail := ""
			if !killed && (strings.Contains(se, "out of memory") || strings.Contains(se, "cannot allocate")) {
				// an allocation so large that it exhausts the worker's address-space limit is the
				// same finding as one that merely exceeds the input's budget; whether the runtime
				// survives it depends on what the heap held at that moment, so both share a key
				why, detail = "alloc", " [worker ran out of memory]"
			}
			first := se
			if i := strings.Index(se, "\n"); i > 0 {
				first = se[:i]
			}
			res.Violate(fmt.Sprintf("C13/%s/%s/%s", why, in.entry, in.class), "input #%d of suite %s (%s): worker process %s%s (%v): %s", cur, suite, in.desc, why, detail, err, first)
			res.Evals++
			res.Nontrivial++
			aborts++
			lo = cur + 1
			// the same (entry, input class) would only reproduce the same finding: skip its siblings in this chunk
			skipKeys = append(skipKeys, in.entry+"|"+in.class)
			continue
		}
		if err != nil && lo < hi {
			res.Violate("C13/harness", "worker for %s[%d:%d] failed without an input in flight: %v %s", suite, lo, hi, err, tail(stderr.String()))
			return res
		}
		break
	}
	return res
}

// procCPU: user+system CPU seconds consumed so far by process pid (0 if unknown).
func procCPU(pid int) float64 {
	b, err := os.ReadFile(fmt.Sprintf("/proc/%d/stat", pid))
	if err != nil {
		return 0
	}
	// fields after the ")" that closes the command name; utime and stime are the 12th and 13th of those
	i := bytes.LastIndexByte(b, ')')
	if i < 0 {
		return 0
	}
	f := strings.Fields(string(b[i+1:]))
	if len(f) < 13 {
		return 0
	}
	var ut, st float64
	fmt.Sscanf(f[11], "%f", &ut)
	fmt.Sscanf(f[12], "%f", &st)
	return (ut + st) / 100
}

func tail(s string) string {
	if len(s) > 600 {
		return s[len(s)-600:]
	}
	return s
}

func C13Plan() *vlib.Plan {
	p := &vlib.Plan{
		RerunIntersect: true,
		Property:       "C13", Level: "exploration",
		Rule:   "Bounded structure-aware exhaustion of every decoder entry point: (stream) 5 receive entry points x {plain, AES-GCM} x all 1-byte strings, all strings of 2-3 (thorough 4) bytes over a 16-value header alphabet, end flag x length boundary product x {no, partial, full body}, runs of 10 / 10^3 / 2*10^5 empty and 1-byte partial frames; (message) 11 typed/ClassAd readers + GetBytes(n) for 17 boundary n, x {one frame, 1-byte frames, missing end} x both modes x payloads = boundary integer (17 values from MinInt64 to MaxInt64) followed by 9 string shapes (empty, unterminated, marker, cap-1/cap/cap+1/10xcap, 100 KB), every truncation of a valid ad, count field over the catalogue, secret marker followed by 10 B..900 KB, ads of 2/5/50 attributes (plain or marker+secret, both string forms) each below the cap but summing above it, every length-prefixed string <= 4 bytes over {Z,K,M,NUL,=} as an ad's only expression (marker with / without its terminator), 20000 tiny expressions; (handshake) real ClientHandshake / ServerHandshake against scripted peers that put every catalogue integer into every length/count/status field they read (server ad, method reply, 5 exchangeKey fields, post-auth ad, SSL message length, FS result, 6 TOKEN step-2 fields; client ad, command, bitmask, CLAIMTOBE, 3 TOKEN step-1 fields, resumption request; through a scripted TLS-over-CEDAR client: the tunnelled TLS message length and the SciToken size read over the established TLS connection) and 4 KB..900 KB oversize ads (200 KB / 900 KB also in 16 KiB frames, for the server ad, the client ad and the reply to a resumption request, with the bytes taken off the connection measured against the 4 KiB cap); (text) all strings <= 5 (thorough 6) over 12-symbol alphabets through 8 parsers, crypto-state blob length fields. Oracle per input: no panic (recovered in the worker), no abort (out-of-memory under ulimit -v 6 GiB, stack overflow under a 16 MiB stack, attributed by the parent to the input in flight), no spin (15 s of CPU, or 5 min of wall-clock time, on one input), TotalAlloc <= 256 x (bytes served + cap) + 4 MiB, capped readers consume <= cap + one frame. Non-trivial = the decoder was invoked on the input (distinct inputs by construction).",
		Assume: []string{"inputs outside the generated grammar are not covered (the property's fuzzing wording is claimed in this bounded form)", "memory judged by Go's TotalAlloc; SCITOKENS/KERBEROS readers not reached"},
	}
	p.Gen = func(tier string, yield func(vlib.Case)) {
		p.Bounds = map[string]any{"int_catalogue": c13Ints}
		sizes := map[string]int{}
		for _, suite := range []string{"stream", "message", "handshake", "text"} {
			suite := suite
			inputs := c13Suites[suite](tier)
			sizes[suite] = len(inputs)
			// one case per entry point, so inputs that share a finding sit in one chunk
			var entries []string
			seen := map[string]bool{}
			for _, in := range inputs {
				if !seen[in.entry] {
					seen[in.entry] = true
					entries = append(entries, in.entry)
				}
			}
			for _, en := range entries {
				en := en
				first := ""
				for _, in := range inputs {
					if in.entry == en {
						first = in.desc
						break
					}
				}
				yield(vlib.Case{ID: fmt.Sprintf("%s/%s", suite, en), Run: func() *vlib.Result {
					r := c13RunChunk(suite, tier, 0, len(inputs), en, inputs)
					r.Sample = map[string]any{"suite": suite, "entry": en, "first_input": first}
					return r
				}})
			}
		}
		p.SetExtra("inputs_per_suite", sizes)
	}
	return p
}
