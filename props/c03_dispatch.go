package props

// C03, server role with a per-command policy (server.Server.SecurityConfigForCommand):
// the endpoint's "own policy" for a request is the policy of the command that is being
// served. A handler for a command whose policy marks authentication REQUIRED must only
// run on a connection where an authentication method ran (or whose resumed session was
// an authenticated one); where encryption or integrity is REQUIRED the connection must
// really be AES-GCM protected - whether the command arrives in a fresh handshake, as a
// follow-on on a kept-alive connection, or in a resumption of a session that was created
// for a laxer command (keyed or key-less).

import (
	"context"
	"fmt"
	"sync"
	"time"

	"github.com/bbockelm/cedar/message"
	"github.com/bbockelm/cedar/security"
	"github.com/bbockelm/cedar/server"
	"github.com/bbockelm/cedar/stream"

	"verif/netsim"
	"verif/vlib"
)

const (
	c03CmdLax    = 201
	c03CmdStrict = 202
)

type c03Inv struct {
	cmd       int
	owner     int // the command this handler was registered for (the number on the wire may differ from it only if dispatch is wrong)
	negAuth   bool
	negEnc    bool
	streamEnc bool
	sid       string
	resumed   bool
}

// c03Dispatch: default (lax command) policy (dAuth,dEnc); strict command policy (sAuth,sEnc,sInteg);
// client kind in {claim, anon, plain}; flow in {fresh-strict, keepalive, resume}.
func c03Dispatch(res *vlib.Result, dAuth, dEnc, sAuth, sEnc, sInteg security.SecurityLevel, kind, flow string) {
	res.Evals++
	mk := func(a, e, i security.SecurityLevel) *security.SecurityConfig {
		c := baseCfg(a, e, []security.AuthMethod{mCTB}, []security.CryptoMethod{security.CryptoAES}, true)
		c.Integrity = i
		return c
	}
	srvCache := security.NewSessionCache()
	def := mk(dAuth, dEnc, security.SecurityOptional)
	def.SessionCache = srvCache
	srv := server.New(def)
	srv.SecurityConfigForCommand = func(c int) *security.SecurityConfig {
		if c == c03CmdStrict {
			cfg := mk(sAuth, sEnc, sInteg)
			cfg.SessionCache = srvCache
			return cfg
		}
		return nil
	}
	var mu sync.Mutex
	var invs []c03Inv
	mkh := func(owner int) server.HandlerFunc {
		return func(ctx context.Context, c *server.Conn) error {
			iv := c03Inv{cmd: c.Command, owner: owner, streamEnc: c.Stream.IsEncrypted()}
			if c.Negotiation != nil {
				iv.negAuth, iv.negEnc, iv.sid, iv.resumed = c.Negotiation.Authentication, c.Negotiation.Encryption, c.Negotiation.SessionId, c.Negotiation.SessionResumed
			}
			mu.Lock()
			invs = append(invs, iv)
			mu.Unlock()
			m := message.NewMessageForStream(c.Stream)
			_ = m.PutString(ctx, fmt.Sprintf("RESP-CANARY-%d", owner))
			if err := m.FinishMessage(ctx); err != nil {
				return err
			}
			c.KeepAlive()
			return nil
		}
	}
	srv.Handle(c03CmdLax, mkh(c03CmdLax), "READ")
	srv.Handle(c03CmdStrict, mkh(c03CmdStrict), "READ")
	_ = srv // no Authorizer: every authenticated or anonymous peer is allowed; only the security level gates dispatch
	cliCache := security.NewSessionCache()
	mkCli := func() *security.SecurityConfig {
		var c *security.SecurityConfig
		switch kind {
		case "claim":
			c = baseCfg(security.SecurityPreferred, security.SecurityPreferred, []security.AuthMethod{mCTB}, []security.CryptoMethod{security.CryptoAES}, false)
		case "claim-nocrypto":
			c = baseCfg(security.SecurityPreferred, security.SecurityOptional, []security.AuthMethod{mCTB}, nil, false)
		case "anon":
			c = baseCfg(security.SecurityNever, security.SecurityOptional, nil, []security.CryptoMethod{security.CryptoAES}, false)
		default: // plain
			c = baseCfg(security.SecurityNever, security.SecurityNever, nil, nil, false)
		}
		c.SessionCache = cliCache
		return c
	}
	truthAuth := map[string]bool{} // sid -> an authentication exchange ran on the wire when the session was made
	id := fmt.Sprintf("default=(auth %s, enc %s) strict-command=(auth %s, enc %s, integrity %s) client=%s flow=%s", lv(dAuth), lv(dEnc), lv(sAuth), lv(sEnc), lv(sInteg), kind, flow)
	// one connection: first command through the handshake, the rest as follow-ons
	conn := func(cmds []int, resumeSid string) (sid string, ok bool, s2c [][]byte) {
		world := netsim.NewWorld(2)
		ce, se := netsim.Pipe(world, hsClientAddr, hsServerAddr)
		var c2s [][]byte
		var fmu sync.Mutex
		var spC, spS netsim.FrameSplitter
		ce.Hook = func(d []byte) [][]byte {
			fmu.Lock()
			c2s = append(c2s, spC.Feed(d)...)
			fmu.Unlock()
			return [][]byte{d}
		}
		se.Hook = func(d []byte) [][]byte {
			fmu.Lock()
			s2c = append(s2c, spS.Feed(d)...)
			fmu.Unlock()
			return [][]byte{d}
		}
		ctx := context.Background()
		var wg sync.WaitGroup
		wg.Add(2)
		go func() {
			defer wg.Done()
			defer world.Done()
			_ = srv.ServeConn(ctx, se)
			se.Close()
		}()
		var resumed bool
		go func() {
			defer wg.Done()
			defer world.Done()
			defer ce.Close()
			cfg := mkCli()
			cfg.Command = cmds[0]
			cfg.SessionID = resumeSid
			st := stream.NewStream(ce)
			a := security.NewAuthenticator(cfg, st)
			neg, err := a.ClientHandshake(ctx)
			if err != nil {
				return
			}
			sid, resumed = neg.SessionId, a.WasSessionResumed()
			if _, err := message.NewMessageFromStream(st).GetString(ctx); err != nil {
				return
			}
			ok = true
			for _, c := range cmds[1:] {
				m := message.NewMessageForStream(st)
				_ = m.PutInt(ctx, c)
				_ = m.PutString(ctx, "FOLLOW-CANARY")
				if m.FinishMessage(ctx) != nil {
					return
				}
				if _, err := message.NewMessageFromStream(st).GetString(ctx); err != nil {
					return
				}
			}
		}()
		done := make(chan struct{})
		go func() { wg.Wait(); close(done) }()
		select {
		case <-done:
		case <-time.After(60 * time.Second):
			ce.Close()
			se.Close()
			<-done
			res.Violate("C03/dispatch/hang", "%s", id)
		}
		res.Transitions += len(cmds)
		if sid != "" && resumeSid == "" && !resumed {
			n := 0
			fmu.Lock()
			for _, f := range c2s {
				if len(f) == 5+8 { // the client's method bitmask message: an exchange was started
					n++
				}
			}
			fmu.Unlock()
			if _, seen := truthAuth[sid]; !seen {
				truthAuth[sid] = n > 0 && (kind == "claim" || kind == "claim-nocrypto")
			}
		}
		return
	}
	judge := func(s2c [][]byte, stage string) {
		mu.Lock()
		list := append([]c03Inv(nil), invs...)
		invs = nil
		mu.Unlock()
		for _, iv := range list {
			key := func(k string) string { return fmt.Sprintf("C03/dispatch/%s/%s/%s", k, flow, kind) }
			if iv.cmd != iv.owner {
				// the policy that was applied is the one of the number on the wire; the handler belongs to another command
				res.Violate(key("handler-of-another-command-ran"), "%s (%s): command %d was requested (and its policy applied), the handler registered for command %d ran", id, stage, iv.cmd, iv.owner)
			}
			if iv.owner != c03CmdStrict {
				continue
			}
			res.Nontrivial++
			if sAuth == security.SecurityRequired && !truthAuth[iv.sid] {
				res.Violate(key("auth-required-handler-ran-unauthenticated"), "%s (%s): the handler of a command whose policy marks authentication REQUIRED ran on a connection whose session %q never saw an authentication exchange (reports Authentication=%v)", id, stage, iv.sid, iv.negAuth)
			}
			if sEnc == security.SecurityRequired || sInteg == security.SecurityRequired {
				if !iv.streamEnc || framesContain(s2c, fmt.Sprintf("RESP-CANARY-%d", c03CmdStrict)) {
					res.Violate(key("enc-required-handler-ran-in-clear"), "%s (%s): the handler of a command whose policy marks encryption/integrity REQUIRED ran on a plaintext connection (IsEncrypted=%v, reports Encryption=%v)", id, stage, iv.streamEnc, iv.negEnc)
				}
			}
			if iv.negEnc != iv.streamEnc {
				res.Violate(key("enc-flag-not-real"), "%s (%s): reports Encryption=%v, stream %v", id, stage, iv.negEnc, iv.streamEnc)
			}
			res.Outcome("dispatch-strict-ran")
		}
	}
	switch flow {
	case "fresh-strict":
		_, _, w := conn([]int{c03CmdStrict}, "")
		judge(w, "fresh handshake naming the strict command")
	case "keepalive":
		_, _, w := conn([]int{c03CmdLax, c03CmdStrict}, "")
		judge(w, "follow-on command on a kept-alive connection")
	case "fresh-strict-high":
		// a number that equals the strict command only in its low 32 bits is NOT the strict command: its policy is
		// the default one, and no handler is registered for it
		_, _, w := conn([]int{c03CmdStrict + 1<<32}, "")
		judge(w, "fresh handshake naming strict + 2^32")
	case "keepalive-high":
		_, _, w := conn([]int{c03CmdLax, c03CmdStrict + 1<<32}, "")
		judge(w, "follow-on command strict + 2^32 on a kept-alive connection")
	case "resume":
		sid, ok, _ := conn([]int{c03CmdLax}, "")
		judge(nil, "setup")
		if !ok || sid == "" {
			res.Outcome("dispatch-setup-refused")
			return
		}
		_, _, w := conn([]int{c03CmdStrict}, sid)
		judge(w, "resumption of the lax command's session naming the strict command")
		_, _, w = conn([]int{c03CmdLax, c03CmdStrict}, sid)
		judge(w, "resumption for the lax command, then the strict command as a follow-on")
	}
	res.Outcome("dispatch-done")
}

func c03DispatchCases(tier string, yield func(vlib.Case)) {
	for _, kind := range []string{"claim", "claim-nocrypto", "anon", "plain"} {
		for _, flow := range []string{"fresh-strict", "keepalive", "resume", "fresh-strict-high", "keepalive-high"} {
			kind, flow := kind, flow
			yield(vlib.Case{ID: fmt.Sprintf("dispatch/%s/%s", kind, flow), Run: func() *vlib.Result {
				res := &vlib.Result{}
				for _, da := range c10Levels {
					for _, de := range c10Levels {
						for _, sa := range c10Levels {
							for _, se := range c10Levels {
								c03Dispatch(res, da, de, sa, se, security.SecurityOptional, kind, flow)
								if tier == "thorough" || (da == security.SecurityOptional && de == security.SecurityOptional) {
									c03Dispatch(res, da, de, sa, se, security.SecurityRequired, kind, flow)
								}
							}
						}
					}
				}
				for o := range res.Outcomes {
					res.States = append(res.States, fmt.Sprintf("dispatch/%s/%s:%s", kind, flow, o))
				}
				res.Sample = map[string]any{"client": kind, "flow": flow}
				return res
			}})
		}
	}
}
