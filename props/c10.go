package props

// C10 — honest peers negotiate by the policy table and agree on the result.
// E-ENUM over the full 4^4 level matrix x method-list shapes x cipher lists x
// {command, auth-only}: two real endpoints on a netsim pipe with a passive
// relay; oracle = independent decision table written from the property text.

import (
	"context"
	"fmt"
	"github.com/bbockelm/cedar/server"
	"github.com/bbockelm/cedar/stream"
	"strings"
	"verif/netsim"

	"github.com/bbockelm/cedar/security"

	"verif/vlib"
)

var c10Levels = []security.SecurityLevel{security.SecurityRequired, security.SecurityPreferred, security.SecurityOptional, security.SecurityNever}

type c10Shape struct {
	name   string
	c, s   []security.AuthMethod
	noTok  bool
	mutual bool   // a mutually usable, implemented method exists
	legacy string // != "": both sides list a legacy cipher next to AES ("3des-first", "blowfish-first", "crossed")
}

var (
	mCTB = security.AuthClaimToBe
	mTOK = security.AuthToken
	mPWD = security.AuthPassword
)

var c10Shapes = []c10Shape{
	{"ctb-only", []security.AuthMethod{mCTB}, []security.AuthMethod{mCTB}, false, true, ""},
	{"same-order", []security.AuthMethod{mCTB, mTOK}, []security.AuthMethod{mCTB, mTOK}, false, true, ""},
	{"reversed", []security.AuthMethod{mCTB, mTOK}, []security.AuthMethod{mTOK, mCTB}, false, true, ""},
	{"disjoint", []security.AuthMethod{mCTB}, []security.AuthMethod{mTOK}, false, false, ""},
	{"client-empty", nil, []security.AuthMethod{mCTB}, false, false, ""},
	{"server-empty", []security.AuthMethod{mCTB}, nil, false, false, ""},
	{"unimpl-first", []security.AuthMethod{mPWD, mCTB}, []security.AuthMethod{mPWD, mCTB}, false, true, ""},
	{"unimpl-only", []security.AuthMethod{mPWD}, []security.AuthMethod{mPWD}, false, false, ""},
	{"token-only", []security.AuthMethod{mTOK}, []security.AuthMethod{mTOK}, false, true, ""},
	{"token-no-token", []security.AuthMethod{mTOK}, []security.AuthMethod{mTOK}, true, false, ""},
	{"ssl-only", []security.AuthMethod{security.AuthSSL}, []security.AuthMethod{security.AuthSSL}, false, true, ""},
	{"ssl-then-ctb", []security.AuthMethod{security.AuthSSL, mCTB}, []security.AuthMethod{security.AuthSSL, mCTB}, false, true, ""},
	// entries that have no bit in the method mask (NONE, names cedar does not know) AHEAD of the usable method
	{"server-none-first", []security.AuthMethod{mCTB}, []security.AuthMethod{security.AuthNone, mCTB}, false, true, ""},
	{"server-unknown-first", []security.AuthMethod{mCTB}, []security.AuthMethod{"MUNGE", mCTB}, false, true, ""},
	{"client-none-first", []security.AuthMethod{security.AuthNone, mCTB}, []security.AuthMethod{mCTB}, false, true, ""},
	{"both-unknown-first", []security.AuthMethod{"GSI", mCTB, mTOK}, []security.AuthMethod{"MUNGE", mTOK, mCTB}, false, true, ""},
}

func lv(l security.SecurityLevel) string { return string(l)[:3] }

func c10One(res *vlib.Result, ca, sa, ce, se security.SecurityLevel, sh c10Shape, commonCipher bool, withCmd bool) {
	c10Run(res, ca, sa, ce, se, sh, commonCipher, withCmd, false)
}

// c10Run: with second=true the server resolves the command's policy through
// ServerConfigForCommand, which hands back ONE policy object for every
// connection (as a server with a policy table does), and the connection judged
// is the second one served with those same objects.
func c10Run(res *vlib.Result, ca, sa, ce, se security.SecurityLevel, sh c10Shape, commonCipher bool, withCmd bool, second bool) {
	res.Evals++
	cc := []security.CryptoMethod{security.CryptoAES}
	sc := []security.CryptoMethod{security.CryptoAES}
	if !commonCipher {
		sc = []security.CryptoMethod{security.CryptoBlowfish}
	}
	switch sh.legacy {
	case "3des-first":
		cc, sc = []security.CryptoMethod{security.Crypto3DES, security.CryptoAES}, []security.CryptoMethod{security.Crypto3DES, security.CryptoAES}
	case "blowfish-first":
		cc, sc = []security.CryptoMethod{security.CryptoBlowfish, security.CryptoAES}, []security.CryptoMethod{security.CryptoBlowfish, security.CryptoAES}
	case "crossed":
		cc, sc = []security.CryptoMethod{security.CryptoAES, security.Crypto3DES}, []security.CryptoMethod{security.Crypto3DES, security.CryptoAES}
	}
	ccfg := baseCfg(ca, ce, sh.c, cc, false)
	scfg := baseCfg(sa, se, sh.s, sc, true)
	if sh.noTok {
		ccfg.Token = ""
	}
	if withCmd {
		ccfg.Command = 5
	}
	var hook func(int) *security.SecurityConfig
	if second {
		per := baseCfg(sa, se, sh.s, sc, true)
		hook = func(c int) *security.SecurityConfig {
			if c == 5 {
				return per
			}
			return nil
		}
		c0 := baseCfg(ca, ce, sh.c, cc, false)
		if sh.noTok {
			c0.Token = ""
		}
		c0.Command = 5
		r0 := hsRun(hsOpts{ClientCfg: c0, ServerCfg: scfg, ServerCfgForCmd: hook, App: true})
		if r0.S.Neg != nil {
			security.GetSessionCache().Invalidate(r0.S.Neg.SessionId)
		}
	}
	r := hsRun(hsOpts{ClientCfg: ccfg, ServerCfg: scfg, ServerCfgForCmd: hook, App: true})
	id := fmt.Sprintf("auth=%s/%s enc=%s/%s methods=%s cipher=%v%s cmd=%v", lv(ca), lv(sa), lv(ce), lv(se), sh.name, commonCipher, sh.legacy, withCmd)
	if second {
		id += " (second connection; policy from one shared per-command object)"
	}
	cell := fmt.Sprintf("auth=%s/%s", lv(ca), lv(sa))
	ecell := fmt.Sprintf("enc=%s/%s", lv(ce), lv(se))
	if r.Timeout {
		res.Violate("C10/hang", "%s: handshake did not finish", id)
		return
	}
	// ---- independent decision table ----
	R, P, N := security.SecurityRequired, security.SecurityPreferred, security.SecurityNever
	authReq := ca == R || sa == R
	encReq := ce == R || se == R
	mustFail := (ca == R && sa == N) || (ca == N && sa == R) || (ce == R && se == N) || (ce == N && se == R) ||
		(authReq && !sh.mutual) || (encReq && !commonCipher)
	authRuns := authReq || ((ca == P || sa == P) && ca != N && sa != N && sh.mutual)
	cOK, sOK := r.C.Err == nil, r.S.Err == nil
	if r.S.Neg != nil {
		security.GetSessionCache().Invalidate(r.S.Neg.SessionId)
	}
	res.Nontrivial++
	if mustFail {
		if cOK || sOK {
			res.Violate(fmt.Sprintf("C10/succeeds-where-table-fails/%s/%s/%s", sh.name, cell, ecell), "%s: table says fail; client err=%s server err=%s", id, errStr(r.C.Err), errStr(r.S.Err))
			res.Outcome("finding-should-fail")
			return
		}
		// explicit denial rather than a bare close
		e := r.C.Err.Error()
		if isEOF(r.C.Err) || strings.Contains(e, "closed pipe") || strings.Contains(e, "closed connection") || strings.Contains(e, "stuck") {
			if !(strings.Contains(e, "denied") || strings.Contains(e, "DENIED") || strings.Contains(e, "rejected") || strings.Contains(e, "methods failed") || strings.Contains(e, "incompatib") || strings.Contains(e, "no compatible")) {
				res.Violate(fmt.Sprintf("C10/bare-close/%s/%s/%s", sh.name, cell, ecell), "%s: client got a bare close instead of an explicit denial: %s", id, e)
				res.Outcome("finding-bare-close")
				return
			}
		}
		res.Outcome("fail-as-table")
		return
	}
	if !cOK || !sOK {
		res.Violate(fmt.Sprintf("C10/fails-where-table-succeeds/%s/%s/%s", sh.name, cell, ecell), "%s: table says succeed; client err=%s server err=%s", id, errStr(r.C.Err), errStr(r.S.Err))
		res.Outcome("finding-should-succeed")
		return
	}
	cn, sn := r.C.Neg, r.S.Neg
	// wire witness of an authentication exchange: a second client frame that is an 8-byte bitmask
	hsFrames := len(r.C2S)
	if r.C.AppErr == nil || len(r.S.AppGot) > 0 {
		hsFrames-- // the ping
	}
	authRanWire := hsFrames > 1
	if authRanWire != authRuns {
		res.Violate(fmt.Sprintf("C10/auth-ran-differs-from-table/%s/%s", cell, sh.name), "%s: table says authentication runs=%v, wire shows %v (%d client handshake frames)", id, authRuns, authRanWire, hsFrames)
	}
	if cn.Authentication != sn.Authentication {
		res.Violate(fmt.Sprintf("C10/auth-flag-disagree/%s/%s", cell, sh.name), "%s: client reports Authentication=%v, server %v (ran on wire: %v)", id, cn.Authentication, sn.Authentication, authRanWire)
	}
	if cn.Authentication != authRanWire || sn.Authentication != authRanWire {
		res.Violate(fmt.Sprintf("C10/auth-flag-vs-wire/%s/%s", cell, sh.name), "%s: wire shows authentication ran=%v but client reports %v, server reports %v", id, authRanWire, cn.Authentication, sn.Authentication)
	}
	if cn.Encryption != sn.Encryption {
		res.Violate(fmt.Sprintf("C10/enc-flag-disagree/%s", ecell), "%s: client reports Encryption=%v, server %v", id, cn.Encryption, sn.Encryption)
	}
	if cn.Encryption != r.C.Stream.IsEncrypted() || sn.Encryption != r.S.Stream.IsEncrypted() {
		res.Violate(fmt.Sprintf("C10/enc-flag-vs-stream/%s", ecell), "%s: reported Encryption c=%v s=%v but streams encrypted c=%v s=%v", id, cn.Encryption, sn.Encryption, r.C.Stream.IsEncrypted(), r.S.Stream.IsEncrypted())
	}
	if encReq && !(r.C.Stream.IsEncrypted() && r.S.Stream.IsEncrypted()) {
		res.Violate(fmt.Sprintf("C10/required-enc-off/%s", ecell), "%s: encryption required by a side but the streams are not encrypted", id)
	}
	if cn.SessionId != sn.SessionId || cn.SessionId == "" {
		res.Violate("C10/session-id-disagree", "%s: client sid %q server sid %q", id, cn.SessionId, sn.SessionId)
	}
	if r.C.AppErr != nil || r.S.AppErr != nil || string(r.S.AppGot) != "ping-from-client" || string(r.C.AppGot) != "pong-from-server" {
		res.Violate(fmt.Sprintf("C10/cannot-exchange/%s/%s", cell, ecell), "%s: after a successful handshake ping/pong failed: client %s server %s", id, errStr(r.C.AppErr), errStr(r.S.AppErr))
	}
	res.Outcome(fmt.Sprintf("ok-auth=%v-enc=%v", authRanWire, r.C.Stream.IsEncrypted()))
}

// c10ServerCmd: the same agreement through server.Server, whose per-command hook makes
// command `cmd` stricter (authentication and encryption REQUIRED) than the permissive
// default. Client and server must agree that authentication ran and encryption is on,
// and the handler must see exactly that - for every command number, 0 included.
func c10ServerCmd(res *vlib.Result, cmd int) {
	res.Evals++
	res.Nontrivial++
	res.Transitions++
	ctx := context.Background()
	def := baseCfg(security.SecurityOptional, security.SecurityOptional, []security.AuthMethod{mCTB}, []security.CryptoMethod{security.CryptoAES}, true)
	strict := baseCfg(security.SecurityRequired, security.SecurityRequired, []security.AuthMethod{mCTB}, []security.CryptoMethod{security.CryptoAES}, true)
	srv := server.New(def)
	srv.SecurityConfigForCommand = func(c int) *security.SecurityConfig {
		if c == cmd {
			return strict
		}
		return nil
	}
	var ran, hAuth, hEnc bool
	srv.Handle(cmd, func(ctx context.Context, c *server.Conn) error {
		ran = true
		if c.Negotiation != nil {
			hAuth = c.Negotiation.Authentication
		}
		hEnc = c.Stream.IsEncrypted()
		return c.Stream.SendMessage(ctx, []byte("handler-reply"))
	}, "READ")
	w := netsim.NewWorld(2)
	ce, se := netsim.Pipe(w, hsClientAddr, hsServerAddr)
	done := make(chan error, 1)
	go func() {
		defer w.Done()
		err := srv.ServeConn(ctx, se)
		se.Close()
		done <- err
	}()
	cc := baseCfg(security.SecurityOptional, security.SecurityOptional, []security.AuthMethod{mCTB}, []security.CryptoMethod{security.CryptoAES}, false)
	cc.Command = cmd
	st := stream.NewStream(ce)
	neg, herr := security.NewAuthenticator(cc, st).ClientHandshake(ctx)
	var reply []byte
	var rerr error
	if herr == nil {
		reply, rerr = st.ReceiveCompleteMessage(ctx)
	}
	ce.Close()
	w.Done()
	serr := <-done
	if neg != nil {
		security.GetSessionCache().Invalidate(neg.SessionId)
	}
	id := fmt.Sprintf("server.Server, command %d with a REQUIRED/REQUIRED per-command policy over an OPTIONAL default, OPTIONAL client", cmd)
	if herr != nil {
		res.Violate(fmt.Sprintf("C10/server-cmd/fails-where-table-succeeds/cmd=%d", cmd), "%s: client handshake failed: %v (server: %v)", id, herr, serr)
		return
	}
	if !neg.Authentication || !neg.Encryption || !st.IsEncrypted() {
		res.Violate(fmt.Sprintf("C10/server-cmd/policy-not-applied/cmd=%d", cmd), "%s: the client was told authentication=%v encryption=%v (stream encrypted %v); the command's policy requires both", id, neg.Authentication, neg.Encryption, st.IsEncrypted())
	}
	if !ran || string(reply) != "handler-reply" || rerr != nil {
		res.Violate(fmt.Sprintf("C10/server-cmd/cannot-exchange/cmd=%d", cmd), "%s: after a handshake the client saw succeed, the handler ran=%v and the client read %q (%v); server returned %v", id, ran, reply, rerr, serr)
		return
	}
	if hAuth != neg.Authentication || hEnc != st.IsEncrypted() {
		res.Violate(fmt.Sprintf("C10/server-cmd/reports-disagree/cmd=%d", cmd), "%s: handler saw authentication=%v encrypted=%v, client %v/%v", id, hAuth, hEnc, neg.Authentication, st.IsEncrypted())
	}
	res.Outcome("server-cmd-ok")
}

// c10Reuse: one client policy object used for two handshakes in a row (each on a shallow
// copy, as client.ConnectAndAuthenticateWithConfig makes) against servers with
// different method lists. The first handshake must leave the caller's policy as it was,
// and the second must come out as the table says for the policy the caller configured.
func c10Reuse(res *vlib.Result, cl, s1, s2 []security.AuthMethod) {
	res.Evals++
	res.Nontrivial++
	id := fmt.Sprintf("client %v: first server %v, then server %v (authentication REQUIRED everywhere)", cl, s1, s2)
	policy := baseCfg(security.SecurityRequired, security.SecurityOptional, append([]security.AuthMethod(nil), cl...), []security.CryptoMethod{security.CryptoAES}, false)
	common := func(a, b []security.AuthMethod) bool {
		for _, x := range a {
			for _, y := range b {
				if x == y {
					return true
				}
			}
		}
		return false
	}
	for step, sm := range [][]security.AuthMethod{s1, s2} {
		cc := *policy // shallow copy per connection
		cc.SessionCache = security.NewSessionCache()
		cc.Command = 5
		sc := baseCfg(security.SecurityRequired, security.SecurityOptional, sm, []security.CryptoMethod{security.CryptoAES}, true)
		r := hsRun(hsOpts{ClientCfg: &cc, ServerCfg: sc, App: true})
		res.Transitions++
		if r.S.Neg != nil {
			security.GetSessionCache().Invalidate(r.S.Neg.SessionId)
		}
		if fmt.Sprint(policy.AuthMethods) != fmt.Sprint(cl) {
			res.Violate("C10/reuse/client-policy-mutated", "%s: after handshake %d the caller's AuthMethods read %v", id, step+1, policy.AuthMethods)
			return
		}
		ok := r.C.Err == nil && r.S.Err == nil
		if want := common(cl, sm); ok != want {
			res.Violate(fmt.Sprintf("C10/reuse/handshake-%d-differs-from-table", step+1), "%s: handshake %d succeeded=%v, the table says %v (client %s server %s)", id, step+1, ok, want, errStr(r.C.Err), errStr(r.S.Err))
			return
		}
	}
	res.Outcome("reuse-ok")
}

func C10Plan() *vlib.Plan {
	p := &vlib.Plan{
		Property: "C10", Level: "model_checking",
		Rule:   "E-ENUM: full 4^4 matrix of (client auth, server auth, client enc, server enc) levels x method-list shapes (same, reversed, disjoint, empty either side, unimplemented first/only, token with/without a usable token, SSL only, SSL before CLAIMTOBE - TLS tunnelled through CEDAR messages with a throw-away CA) x {common cipher, none} x {command, auth-only}; each cell runs two real endpoints over an in-memory pipe with a passive frame recorder; cells with a command and a common cipher are also judged on the SECOND connection of a server that resolves the command's policy through ServerConfigForCommand returning one shared object; and one client policy object is reused for two handshakes against servers with different method lists (all 16 ordered pairs over 4 lists x 2 client orders): the policy must be left untouched and the second handshake must follow the table; and server.Server with a stricter per-command policy for command numbers 0, 1, 5, 60007, 2^30. Oracle = decision table written from the property text (fail/succeed, authentication runs, encryption on, explicit denial) + agreement of both reports + ping/pong. state = policy cell outcome class; transitions = handshakes executed.",
		Assume: []string{"CLAIMTOBE, TOKEN, SSL and the unimplemented PASSWORD stand for the method alphabet (KERBEROS/SCITOKENS need a KDC / an issuer)"},
	}
	p.Gen = func(tier string, yield func(vlib.Case)) {
		shapes := c10Shapes
		if tier != "thorough" {
			shapes = []c10Shape{c10Shapes[0], c10Shapes[2], c10Shapes[3], c10Shapes[6], c10Shapes[7], c10Shapes[10], c10Shapes[12], c10Shapes[13], c10Shapes[14]}
		}
		names := []string{}
		for _, s := range shapes {
			names = append(names, s.name)
		}
		p.Bounds = map[string]any{"levels": 4, "method_shapes": names}
		yield(vlib.Case{ID: "server-per-command-policy", Run: func() *vlib.Result {
			res := &vlib.Result{}
			for _, cmd := range []int{0, 1, 5, 60007, 1 << 30} {
				c10ServerCmd(res, cmd)
			}
			return res
		}})
		for _, lg := range []string{"3des-first", "blowfish-first", "crossed"} {
			lg := lg
			yield(vlib.Case{ID: "legacy-cipher/" + lg, Run: func() *vlib.Result {
				res := &vlib.Result{}
				sh := c10Shapes[0]
				sh.legacy, sh.name = lg, sh.name+"+"+lg
				for _, ca := range c10Levels {
					for _, sa := range c10Levels {
						for _, ce := range []security.SecurityLevel{security.SecurityOptional, security.SecurityPreferred} {
							for _, se := range []security.SecurityLevel{security.SecurityOptional, security.SecurityPreferred} {
								c10One(res, ca, sa, ce, se, sh, true, true)
								c10One(res, ca, sa, ce, se, sh, true, false)
							}
						}
					}
				}
				return res
			}})
		}
		lists := [][]security.AuthMethod{{mCTB}, {mTOK}, {mTOK, mCTB}, {mCTB, mTOK}}
		for _, cl := range lists[2:] {
			cl := cl
			yield(vlib.Case{ID: fmt.Sprintf("reuse/client=%v", cl), Run: func() *vlib.Result {
				res := &vlib.Result{}
				for _, s1 := range lists {
					for _, s2 := range lists {
						c10Reuse(res, cl, s1, s2)
					}
				}
				return res
			}})
		}
		for _, ca := range c10Levels {
			for _, sa := range c10Levels {
				for _, sh := range shapes {
					ca, sa, sh := ca, sa, sh
					yield(vlib.Case{ID: fmt.Sprintf("auth=%s/%s/%s", lv(ca), lv(sa), sh.name), Run: func() *vlib.Result {
						res := &vlib.Result{}
						for _, ce := range c10Levels {
							for _, se := range c10Levels {
								for _, common := range []bool{true, false} {
									for _, cmd := range []bool{false, true} {
										if tier != "thorough" && cmd && !common {
											continue
										}
										c10One(res, ca, sa, ce, se, sh, common, cmd)
										res.Transitions++
										if cmd && common {
											c10Run(res, ca, sa, ce, se, sh, common, cmd, true)
											res.Transitions += 2
										}
									}
								}
							}
						}
						for o := range res.Outcomes {
							res.States = append(res.States, fmt.Sprintf("auth=%s/%s:%s", lv(ca), lv(sa), o))
						}
						res.Sample = map[string]any{"client_auth": ca, "server_auth": sa, "methods": sh.name, "handshakes": res.Evals}
						return res
					}})
				}
			}
		}
	}
	return p
}
