package props

import "verif/vlib"

// Registry maps property ids to plan constructors.
var Registry = map[string]func() *vlib.Plan{
	"C01": C01Plan,
	"C02": C02Plan,
	"C03": C03Plan,
	"C04": C04Plan,
	"C05": C05Plan,
	"C06": C06Plan,
	"C07": C07Plan,
	"C08": C08Plan,
	"C09": C09Plan,
	"C10": C10Plan,
	"C11": C11Plan,
	"C12": C12Plan,
	"C13": C13Plan,
	"C14": C14Plan,
	"C15": C15Plan,
	"C16": C16Plan,
	"C18": C18Plan,
	"C19": C19Plan,
	"C20": C20Plan,
}
