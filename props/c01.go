package props

// C01 — framed messages round-trip byte-exactly under any chunking.
// E-ENUM: (a) every composition of short messages into writes / frames /
// flushes, (b) threshold sweep around 0, 4 KiB, 16 KiB, 1 MiB, 2 MiB ± 34.

import (
	"bytes"
	"context"
	"fmt"
	"io"

	"github.com/bbockelm/cedar/message"
	"github.com/bbockelm/cedar/stream"

	"verif/netsim"
	"verif/refcodec"
	"verif/vlib"
)

var testKey = []byte("0123456789abcdef0123456789ABCDEF")

func payload(m, n int) []byte {
	b := make([]byte, n)
	for i := range b {
		b[i] = byte((i*131 + m*17) % 251)
	}
	return b
}

// c01Msg is one message to send: its bytes and how the sender cuts it.
type c01Msg struct {
	data       []byte
	parts      []int // lengths of the writes (sum = len(data)); empty => one write
	flush      uint  // typed sender: bit i set => FlushFrame(false) after part i
	emptyFinal bool
}

func (m c01Msg) cut() [][]byte {
	if len(m.parts) == 0 {
		return [][]byte{m.data}
	}
	var out [][]byte
	off := 0
	for _, p := range m.parts {
		out = append(out, m.data[off:off+p])
		off += p
	}
	return out
}

// c01Send drives one sender kind; returns (accepted, typedSizeErr).
func c01Send(s *stream.Stream, kind string, m c01Msg) (err error) {
	ctx := context.Background()
	parts := m.cut()
	switch kind {
	case "send":
		return s.SendMessage(ctx, m.data)
	case "write":
		s.StartMessage()
		for _, p := range parts {
			if err := s.WriteMessage(ctx, p); err != nil {
				return err
			}
		}
		return s.EndMessage(ctx)
	case "partial":
		for i, p := range parts {
			if i == len(parts)-1 && !m.emptyFinal {
				return s.SendMessage(ctx, p)
			}
			if err := s.SendPartialMessage(ctx, p); err != nil {
				return err
			}
		}
		return s.SendMessage(ctx, nil)
	case "typed", "typedchar":
		msg := message.NewMessageForStream(s)
		for i, p := range parts {
			if kind == "typedchar" {
				for _, c := range p {
					if err := msg.PutChar(ctx, c); err != nil {
						return err
					}
				}
			} else if err := msg.PutBytes(ctx, p); err != nil {
				return err
			}
			if m.flush&(1<<uint(i)) != 0 {
				if err := msg.FlushFrame(ctx, false); err != nil {
					return err
				}
			}
		}
		return msg.FinishMessage(ctx)
	case "putstring":
		msg := message.NewMessageForStream(s)
		if err := msg.PutString(ctx, string(m.data)); err != nil {
			return err
		}
		return msg.FinishMessage(ctx)
	case "putstringbytes":
		msg := message.NewMessageForStream(s)
		if err := msg.PutStringBytes(ctx, m.data); err != nil {
			return err
		}
		return msg.FinishMessage(ctx)
	}
	panic("unknown sender " + kind)
}

// c01Recv reads one message of expected length n with the given receiver kind.
func c01Recv(s *stream.Stream, kind string, n int) ([]byte, error) {
	ctx := context.Background()
	switch kind {
	case "complete":
		return s.ReceiveCompleteMessage(ctx)
	case "readmsg1", "readmsg7", "readmsgall":
		chunk := n
		if kind == "readmsg1" {
			chunk = 1
		} else if kind == "readmsg7" {
			chunk = 7
		}
		if err := s.StartMessageRead(ctx); err != nil {
			return nil, err
		}
		var out []byte
		for iter := 0; len(out) < n; iter++ {
			want := chunk
			if want > n-len(out) {
				want = n - len(out)
			}
			buf := make([]byte, want)
			k, err := s.ReadMessageBytes(ctx, buf)
			if err != nil {
				return out, err
			}
			if k == 0 {
				return out, fmt.Errorf("ReadMessageBytes returned 0 bytes with %d still expected", n-len(out))
			}
			out = append(out, buf[:k]...)
		}
		if err := s.EndMessageRead(); err != nil {
			return out, err
		}
		if out == nil {
			out = []byte{}
		}
		return out, nil
	case "getbytes":
		msg := message.NewMessageFromStream(s)
		out, err := msg.GetBytes(ctx, n)
		if err != nil {
			return out, err
		}
		rest, err := msg.GetRemainingBytes(ctx)
		if err != nil {
			return out, err
		}
		return append(out, rest...), nil
	case "getbytes3":
		// the value is taken in three GetBytes calls whose results are KEPT and only
		// joined after the whole message has been read: a result must stay what it
		// was when later frames arrive
		msg := message.NewMessageFromStream(s)
		k := (n + 2) / 3
		var parts [][]byte
		got := 0
		for got < n {
			c := min(k, n-got)
			b, err := msg.GetBytes(ctx, c)
			if err != nil {
				return bytes.Join(parts, nil), err
			}
			parts = append(parts, b)
			got += c
		}
		rest, err := msg.GetRemainingBytes(ctx)
		if err != nil {
			return bytes.Join(parts, nil), err
		}
		return append(bytes.Join(parts, nil), rest...), nil
	case "remaining":
		msg := message.NewMessageFromStream(s)
		return msg.GetRemainingBytes(ctx)
	case "readframe":
		var out []byte
		for i := 0; i < 1<<22; i++ {
			d, eom, err := s.ReadFrame(ctx)
			if err != nil {
				return out, err
			}
			out = append(out, d...)
			if eom {
				if out == nil {
					out = []byte{}
				}
				return out, nil
			}
		}
		return out, fmt.Errorf("no EOM")
	case "getstring":
		msg := message.NewMessageFromStream(s)
		str, err := msg.GetString(ctx)
		if err != nil {
			return nil, err
		}
		rest, err := msg.GetRemainingBytes(ctx)
		if err != nil {
			return []byte(str), err
		}
		if len(rest) != 0 {
			return []byte(str), fmt.Errorf("%d bytes left in message after the string", len(rest))
		}
		return []byte(str), nil
	}
	panic("unknown receiver " + kind)
}

func sizeBand(n int) string {
	const MiB = 1 << 20
	switch {
	case n <= MiB-32:
		return "le1MiB-32"
	case n <= MiB-16:
		return "(1MiB-32,1MiB-16]"
	case n <= MiB:
		return "(1MiB-16,1MiB]"
	default:
		return "gt1MiB"
	}
}

// c01Run executes one scenario: optional warm-up message, then msgs, sender
// kind S, receiver kind R, mode enc. Returns the result for the runner.
func c01Run(id, S, R string, enc, warm bool, msgs []c01Msg) *vlib.Result {
	return c01RunMode(id, S, R, enc, false, warm, msgs)
}

// c01RunMode: keyedClear = both streams hold a session key but crypto mode is off (the
// wire is plaintext; the third state a stream can be in besides "no key" and "encrypting").
func c01RunMode(id, S, R string, enc, keyedClear, warm bool, msgs []c01Msg, clearPrefix ...int) *vlib.Result {
	res := &vlib.Result{Evals: 1}
	sb := &netsim.Buf{}
	snd := stream.NewStream(sb)
	// clearPrefix[0] messages travel in the clear (one way: the receiver sends nothing) before the
	// key is installed - the shape of a resumed session whose request is not answered in the clear
	nPrefix := 0
	if len(clearPrefix) > 0 {
		nPrefix = clearPrefix[0]
	}
	var prefixSent [][]byte
	for i := 0; i < nPrefix; i++ {
		w := []byte(fmt.Sprintf("cleartext-before-the-key-%d", i))
		if err := snd.SendMessage(context.Background(), w); err != nil {
			res.Violate("C01/prefix-rejected", "%v", err)
			return res
		}
		prefixSent = append(prefixSent, w)
	}
	if keyedClear {
		_ = snd.SetSymmetricKey(testKey)
		snd.SetCryptoMode(false)
	}
	if enc {
		if err := snd.SetSymmetricKey(testKey); err != nil {
			res.Violate("C01/harness", "SetSymmetricKey: %v", err)
			return res
		}
	}
	var sent [][]byte
	if warm {
		w := []byte("warm-up")
		if err := snd.SendMessage(context.Background(), w); err != nil {
			res.Violate("C01/warmup-rejected", "%v", err)
			return res
		}
		sent = append(sent, w)
	}
	pos := "first"
	if warm {
		pos = "later"
	}
	mode := "plain"
	if enc {
		mode = "enc"
	}
	if keyedClear {
		mode = "keyed-not-encrypting"
	}
	if nPrefix > 0 {
		mode += fmt.Sprintf("-after-%d-clear", nPrefix)
	}
	typed := S == "typed" || S == "typedchar" || S == "putstring" || S == "putstringbytes"
	rejected := false
	maxLen := 0
	for _, m := range msgs {
		if len(m.data) > maxLen {
			maxLen = len(m.data)
		}
		err := c01Send(snd, S, m)
		if err != nil {
			rejected = true
			if typed {
				res.Violate(fmt.Sprintf("C01/typed-rejects/%s/%s/%s", S, mode, sizeBand(len(m.data))),
					"typed sender %s returned an error for a value of %d bytes (%s): %v", S, len(m.data), mode, err)
			}
			break
		}
		sent = append(sent, m.data)
	}
	if rejected {
		res.Outcome("sender-rejected")
	}
	// independent parse of the wire: every frame must be within the receiver's limit
	frames, rest := refcodec.ParseFrames(sb.W)
	if len(rest) != 0 && !rejected {
		res.Violate("C01/wire-trailing-bytes", "wire has %d trailing bytes that are not a frame", len(rest))
	}
	if !enc {
		refMsgs, complete := refcodec.Messages(frames)
		if !rejected {
			if !complete || len(refMsgs) != len(sent) {
				res.Violate(fmt.Sprintf("C01/wire-boundaries/%s/%s", S, mode), "reference parse of the wire sees %d messages (complete=%v), sender sent %d", len(refMsgs), complete, len(sent))
			} else {
				for i := range sent {
					exp := wireForm(S, sent[i], enc)
					if i == 0 && warm {
						exp = sent[i]
					}
					if !bytes.Equal(refMsgs[i], exp) {
						res.Violate(fmt.Sprintf("C01/wire-bytes/%s/%s", S, mode), "message %d differs on the wire", i)
						break
					}
				}
			}
		}
	}
	if len(frames) > 0 {
		res.Nontrivial = 1
	}
	// receiver
	rb := &netsim.Buf{R: append([]byte(nil), sb.W...)}
	rcv := stream.NewStream(rb)
	for i, w := range prefixSent {
		got, err := rcv.ReceiveCompleteMessage(context.Background())
		if err != nil || !bytes.Equal(got, w) {
			res.Violate("C01/prefix-not-received", "cleartext message %d before the key: %v", i, err)
			return res
		}
	}
	if enc {
		_ = rcv.SetSymmetricKey(testKey)
	}
	if keyedClear {
		_ = rcv.SetSymmetricKey(testKey)
		rcv.SetCryptoMode(false)
	}
	for i, want := range sent {
		rk := R
		if i == 0 && warm {
			rk = "complete"
		}
		got, err := c01Recv(rcv, rk, len(want))
		if err != nil {
			res.Outcome("receiver-error")
			res.Violate(fmt.Sprintf("C01/accepted-then-rejected/%s/%s/%s/%s", S, mode, pos, sizeBand(maxLen)),
				"sender %s accepted message %d (%d bytes, %s, %s frame position) but receiver %s failed: %v", S, i, len(want), mode, pos, rk, err)
			return res
		}
		if !bytes.Equal(got, want) {
			res.Outcome("mismatch")
			res.Violate(fmt.Sprintf("C01/mismatch/%s/%s/%s", S, rk, mode),
				"message %d: sent %d bytes, receiver %s returned %d bytes (first diff at %d)", i, len(want), rk, len(got), firstDiff(got, want))
			return res
		}
	}
	if !rejected {
		// nothing may be left over: the stream must now be at EOF exactly
		if len(rb.R) != 0 {
			res.Violate(fmt.Sprintf("C01/leftover/%s/%s/%s", S, R, mode), "%d wire bytes left unread after all %d messages were received", len(rb.R), len(sent))
		} else if _, err := rcv.ReceiveCompleteMessage(context.Background()); err == nil {
			res.Violate(fmt.Sprintf("C01/extra-message/%s/%s/%s", S, R, mode), "receiver produced an extra message")
		} else if !isEOF(err) {
			res.Violate(fmt.Sprintf("C01/extra-error/%s/%s/%s", S, R, mode), "after the last message expected EOF, got %v", err)
		}
		res.Outcome("roundtrip-ok")
	}
	return res
}

func isEOF(err error) bool {
	for e := err; e != nil; {
		if e == io.EOF || e == io.ErrUnexpectedEOF {
			return true
		}
		u, ok := e.(interface{ Unwrap() error })
		if !ok {
			return false
		}
		e = u.Unwrap()
	}
	return false
}

// wireForm is the payload the reference expects inside the frames for a value.
func wireForm(S string, data []byte, enc bool) []byte {
	if S == "putstring" || S == "putstringbytes" {
		return refcodec.EncString(string(data), enc)
	}
	return data
}

func firstDiff(a, b []byte) int {
	for i := 0; i < len(a) && i < len(b); i++ {
		if a[i] != b[i] {
			return i
		}
	}
	if len(a) < len(b) {
		return len(a)
	}
	return len(b)
}

// compositions of n: mask bit i (0..n-2) set => cut after byte i.
func composition(n int, mask uint) []int {
	if n == 0 {
		return nil
	}
	var parts []int
	cur := 1
	for i := 0; i < n-1; i++ {
		if mask&(1<<uint(i)) != 0 {
			parts = append(parts, cur)
			cur = 1
		} else {
			cur++
		}
	}
	return append(parts, cur)
}

func C01Plan() *vlib.Plan {
	p := &vlib.Plan{
		Property: "C01", Level: "exploration",
		Rule:   "E-ENUM: (a) every composition of every message length <= N into writes, every flush subset for the typed sender, x sender kind x receiver kind x {plain, AES-GCM} x {first, later frame position}; short sequences of 2-3 messages; the sequences and sizes around the 4 KiB / 16 KiB thresholds also on streams that hold a key with crypto mode off; (b) sizes T+d for T in {0,4096,16384,1MiB,2MiB}, |d|<=34, as one write and as two-write cuts. Non-trivial = sender accepted and at least one frame reached the receiver; IDs are distinct by construction.",
		Assume: []string{"payload byte pattern (i*131+m*17) mod 251 makes loss/duplication/reordering visible", "fixed AES key; IV random per stream"},
	}
	p.Gen = func(tier string, yield func(vlib.Case)) {
		N := 6
		if tier == "thorough" {
			N = 8
		}
		p.Bounds = map[string]any{"max_len_all_compositions": N, "threshold_delta": 34}
		recvs := []string{"complete", "readmsg1", "readmsg7", "readmsgall", "getbytes", "getbytes3", "remaining", "readframe"}
		for _, enc := range []bool{false, true} {
			for _, warm := range []bool{false, true} {
				for _, R := range recvs {
					for n := 0; n <= N; n++ {
						nmask := uint(1)
						if n > 1 {
							nmask = 1 << uint(n-1)
						}
						for mask := uint(0); mask < nmask; mask++ {
							parts := composition(n, mask)
							for _, S := range []string{"send", "write", "partial", "partialE", "typed", "typedchar"} {
								if S == "send" && mask != 0 {
									continue
								}
								nflush := uint(1)
								if S == "typed" || S == "typedchar" {
									nflush = 1 << uint(len(parts))
									if len(parts) == 0 {
										nflush = 2
									}
								}
								if S == "typedchar" && mask != 0 {
									continue // PutChar per byte: composition irrelevant, flush mask over 1 part
								}
								for fl := uint(0); fl < nflush; fl++ {
									S, R, enc, warm, n, mask, fl, parts := S, R, enc, warm, n, mask, fl, parts
									id := fmt.Sprintf("a/S=%s/R=%s/enc=%v/warm=%v/n=%d/comp=%b/flush=%b", S, R, enc, warm, n, mask, fl)
									yield(vlib.Case{ID: id, Run: func() *vlib.Result {
										m := c01Msg{data: payload(1, n), parts: parts, flush: fl}
										sk := S
										if S == "partialE" {
											sk = "partial"
											m.emptyFinal = true
										}
										if n == 0 {
											m.parts = nil
											if sk == "typed" && fl == 1 {
												m.parts = []int{0}
											}
										}
										r := c01Run(id, sk, R, enc, warm, []c01Msg{m})
										r.Sample = map[string]any{"id": id, "parts": parts}
										return r
									}})
								}
							}
						}
					}
					// sequences of 2-3 messages with lengths 0..3
					for _, S := range []string{"send", "write", "partial", "typed"} {
						for code := 0; code < 4*4*5; code++ {
							l1, l2, l3 := code%4, (code/4)%4, code/16-1
							S, R, enc, warm := S, R, enc, warm
							id := fmt.Sprintf("a-seq/S=%s/R=%s/enc=%v/warm=%v/l=%d,%d,%d", S, R, enc, warm, l1, l2, l3)
							yield(vlib.Case{ID: id, Run: func() *vlib.Result {
								var ms []c01Msg
								for i, l := range []int{l1, l2, l3} {
									if l < 0 {
										continue
									}
									m := c01Msg{data: payload(i+2, l)}
									if S != "send" && l > 0 {
										m.parts = composition(l, (1<<uint(l-1))-1) // all 1-byte parts
										m.flush = 0b101
									}
									ms = append(ms, m)
								}
								return c01Run(id, S, R, enc, warm, ms)
							}})
						}
					}
				}
			}
		}
		// (a') the third stream state: a session key is installed but crypto mode is off. The
		// wire is plaintext, and it must round-trip exactly like a stream without a key
		// (empty messages, empty trailing frames at the flush threshold, large typed values).
		for _, warm := range []bool{false, true} {
			for _, R := range recvs {
				for _, S := range []string{"send", "write", "partial", "typed"} {
					for code := 0; code < 4*4*5; code++ {
						l1, l2, l3 := code%4, (code/4)%4, code/16-1
						S, R, warm := S, R, warm
						id := fmt.Sprintf("k-seq/S=%s/R=%s/keyed-not-encrypting/warm=%v/l=%d,%d,%d", S, R, warm, l1, l2, l3)
						yield(vlib.Case{ID: id, Run: func() *vlib.Result {
							var ms []c01Msg
							for i, l := range []int{l1, l2, l3} {
								if l < 0 {
									continue
								}
								m := c01Msg{data: payload(i+2, l)}
								if S != "send" && l > 0 {
									m.parts = composition(l, (1<<uint(l-1))-1)
									m.flush = 0b101
								}
								ms = append(ms, m)
							}
							return c01RunMode(id, S, R, false, true, warm, ms)
						}})
					}
				}
				for _, S := range []string{"send", "write", "typed"} {
					for _, n := range []int{0, 1, 4095, 4096, 4097, 8192, 16383, 16384, 16385, 20000, 40000} {
						S, R, warm, n := S, R, warm, n
						id := fmt.Sprintf("k-size/S=%s/R=%s/keyed-not-encrypting/warm=%v/n=%d", S, R, warm, n)
						yield(vlib.Case{ID: id, Run: func() *vlib.Result {
							return c01RunMode(id, S, R, false, true, warm, []c01Msg{{data: payload(3, n)}})
						}})
					}
				}
			}
		}
		// (a') a one-way cleartext prefix (1 or 2 messages, nothing coming back) before the key is
		// installed on both ends, then the short sequences on the encrypted stream
		for _, np := range []int{1, 2} {
			for _, R := range recvs {
				for _, S := range []string{"send", "write", "typed"} {
					for _, ls := range [][]int{{0}, {5}, {0, 3}, {4096, 1}, {16384, 0, 7}} {
						np, R, S, ls := np, R, S, ls
						id := fmt.Sprintf("prefix/clear=%d/S=%s/R=%s/l=%v", np, S, R, ls)
						yield(vlib.Case{ID: id, Run: func() *vlib.Result {
							var ms []c01Msg
							for i, l := range ls {
								ms = append(ms, c01Msg{data: payload(10+i, l)})
							}
							r := c01RunMode(id, S, R, true, false, false, ms, np)
							r.Sample = id
							return r
						}})
					}
				}
			}
		}
		// (b) threshold sweep
		const MiB = 1 << 20
		thresholds := []int{0, 4096, 16384, MiB, 2 * MiB}
		for _, T := range thresholds {
			for d := -34; d <= 34; d++ {
				n := T + d
				if n < 0 {
					continue
				}
				big := n > 100000
				for _, enc := range []bool{false, true} {
					for _, warm := range []bool{false, true} {
						rs := recvs
						if big && tier != "thorough" {
							rs = []string{"complete", "readmsgall", "getbytes", "getbytes3"}
						}
						for _, R := range rs {
							for _, S := range []string{"send", "write", "typed"} {
								cuts := []int{0, 1, 4095, 4096, 4097, n - 4096, n - 1}
								if S == "send" {
									cuts = []int{0}
								}
								if big && tier != "thorough" {
									cuts = []int{0, 4096}
								}
								seen := map[int]bool{}
								for _, c := range cuts {
									if c < 0 || c >= n && c != 0 || seen[c] {
										continue
									}
									seen[c] = true
									S, R, enc, warm, n, c := S, R, enc, warm, n, c
									id := fmt.Sprintf("b/S=%s/R=%s/enc=%v/warm=%v/n=%d/cut=%d", S, R, enc, warm, n, c)
									yield(vlib.Case{ID: id, Run: func() *vlib.Result {
										m := c01Msg{data: payload(3, n)}
										if c > 0 {
											m.parts = []int{c, n - c}
										}
										r := c01Run(id, S, R, enc, warm, []c01Msg{m})
										r.Sample = id
										return r
									}})
								}
							}
						}
						// strings (wire form adds NUL and, encrypted, an 8-byte length)
						if T >= 16384 || d%8 == 0 {
							for _, S := range []string{"putstring", "putstringbytes"} {
								S, enc, warm, n := S, enc, warm, n
								id := fmt.Sprintf("b/S=%s/R=getstring/enc=%v/warm=%v/n=%d", S, enc, warm, n)
								yield(vlib.Case{ID: id, Run: func() *vlib.Result {
									data := payload(4, n)
									for i := range data {
										if data[i] == 0 {
											data[i] = 'z'
										}
									}
									return c01Run(id, S, "getstring", enc, warm, []c01Msg{{data: data}})
								}})
							}
						}
					}
				}
			}
		}
	}
	return p
}

func newStreamOn(b *netsim.Buf) *stream.Stream { return stream.NewStream(b) }
