package props

// C11 — token authentication proves possession of a valid token, both ways.
// E-FAULT: (1) every single-bit mutation of the client's token string and a
// catalogue of token variants (other key, unknown / traversal / empty key id,
// missing or non-string sub, expiry and issue times around the limits) through a
// real client/server TOKEN handshake; (2) every byte of each of the three AKEP2
// messages altered in transit, truncations, trailing bytes and a field-aware
// substitution of the claimed client identity; (3) standalone VerifyIDToken on
// every single-bit mutation and the same variants, against an independent
// HKDF+HMAC verifier.

import (
	"bytes"
	"crypto/hmac"
	"encoding/base64"
	"encoding/binary"
	"encoding/json"
	"fmt"
	"os"
	"path/filepath"
	"strings"
	"sync"
	"time"

	"github.com/bbockelm/cedar/security"

	"verif/vlib"
)

const c11MaxAge = 3600

// refVerify: independent reference of "a valid token under a key the server holds".
func refVerify(tok string, now int64) (valid bool, sub string, why string) {
	e := getTokenEnv()
	parts := strings.Split(strings.TrimSpace(tok), ".")
	if len(parts) != 3 {
		return false, "", "not 3 parts"
	}
	hb, err := base64.RawURLEncoding.DecodeString(parts[0])
	if err != nil {
		return false, "", "header b64"
	}
	var hdr map[string]any
	if json.Unmarshal(hb, &hdr) != nil {
		return false, "", "header json"
	}
	kid := "POOL"
	if k, ok := hdr["kid"]; ok {
		ks, isS := k.(string)
		if !isS {
			return false, "", "kid not string"
		}
		if ks != "" {
			kid = ks
		}
	}
	var key []byte
	switch kid {
	case "POOL":
		key = e.PoolKey
	case "k1":
		key = e.K1
	default:
		return false, "", "unknown kid"
	}
	sig, err := base64.RawURLEncoding.DecodeString(parts[2])
	if err != nil {
		return false, "", "sig b64"
	}
	if !hmac.Equal(sig, jwtSig(key, kid, parts[0]+"."+parts[1])) {
		return false, "", "bad signature"
	}
	pb, err := base64.RawURLEncoding.DecodeString(parts[1])
	if err != nil {
		return false, "", "payload b64"
	}
	var cl map[string]any
	if json.Unmarshal(pb, &cl) != nil {
		return false, "", "payload json"
	}
	if x, ok := cl["exp"]; ok {
		f, isN := x.(float64)
		if !isN {
			return false, "", "exp not number"
		}
		if now >= int64(f) {
			return false, "", "expired"
		}
	}
	if x, ok := cl["iat"]; ok {
		f, isN := x.(float64)
		if !isN {
			return false, "", "iat not number"
		}
		if now-int64(f) > c11MaxAge {
			return false, "", "too old"
		}
	}
	s, _ := cl["sub"].(string)
	if s == "" {
		return false, "", "no sub"
	}
	return true, s, ""
}

type c11Tok struct {
	name string
	tok  string
	// timing margin: variants whose validity depends on the wall clock are built
	// 120 s away from the limit, so the reference and the code agree on "now".
}

func c11Variants() []c11Tok {
	e := getTokenEnv()
	now := time.Now().Unix()
	std := func(over map[string]any) map[string]any {
		p := map[string]any{"sub": "alice@verif.domain", "iss": "verif.domain", "iat": now - 10, "exp": now + 3600, "jti": "abcdef0123456789"}
		for k, v := range over {
			if v == nil {
				delete(p, k)
			} else {
				p[k] = v
			}
		}
		return p
	}
	hdr := func(kid any) map[string]any { return map[string]any{"alg": "HS256", "typ": "JWT", "kid": kid} }
	v := []c11Tok{
		{"valid-pool", mintToken(e.PoolKey, "POOL", nil, std(nil))},
		{"valid-k1", mintToken(e.K1, "k1", nil, std(nil))},
		{"signed-by-other-key", mintToken([]byte("some-other-key-some-other-key-32"), "POOL", nil, std(nil))},
		{"k1-token-signed-with-pool-key", mintToken(e.PoolKey, "k1", hdr("k1"), std(nil))},
		{"unknown-kid", mintToken(e.K1, "nope", hdr("nope"), std(nil))},
		{"traversal-kid", mintToken(e.K1, "../keys/k1", hdr("../keys/k1"), std(nil))},
		{"empty-kid", mintToken(e.PoolKey, "POOL", hdr(""), std(nil))},
		{"no-sub", mintToken(e.PoolKey, "POOL", nil, std(map[string]any{"sub": nil}))},
		{"numeric-sub", mintToken(e.PoolKey, "POOL", nil, std(map[string]any{"sub": 42}))},
		{"empty-sub", mintToken(e.PoolKey, "POOL", nil, std(map[string]any{"sub": ""}))},
		{"expired-120s-ago", mintToken(e.PoolKey, "POOL", nil, std(map[string]any{"exp": now - 120}))},
		{"expires-in-120s", mintToken(e.PoolKey, "POOL", nil, std(map[string]any{"exp": now + 120}))},
		{"exp-as-string", mintToken(e.PoolKey, "POOL", nil, std(map[string]any{"exp": "tomorrow"}))},
		{"no-exp", mintToken(e.PoolKey, "POOL", nil, std(map[string]any{"exp": nil}))},
		{"iat-older-than-max-by-120s", mintToken(e.PoolKey, "POOL", nil, std(map[string]any{"iat": now - c11MaxAge - 120}))},
		{"iat-younger-than-max-by-120s", mintToken(e.PoolKey, "POOL", nil, std(map[string]any{"iat": now - c11MaxAge + 120}))},
		{"iat-in-future", mintToken(e.PoolKey, "POOL", nil, std(map[string]any{"iat": now + 120}))},
		{"iat-as-string", mintToken(e.PoolKey, "POOL", nil, std(map[string]any{"iat": "yesterday"}))},
		{"sub-bob", mintToken(e.PoolKey, "POOL", nil, std(map[string]any{"sub": "bob@verif.domain"}))},
	}
	return v
}

func c11Cfgs(tok string) (*security.SecurityConfig, *security.SecurityConfig) {
	cc := baseCfg(security.SecurityRequired, security.SecurityNever, []security.AuthMethod{mTOK}, nil, false)
	sc := baseCfg(security.SecurityRequired, security.SecurityNever, []security.AuthMethod{mTOK}, nil, true)
	cc.Token = tok
	cc.IssuerKeys = nil
	sc.TokenMaxAge = c11MaxAge
	return cc, sc
}

func userOf(sub string) string { return strings.Split(sub, "@")[0] }

// c11Handshake judges one token through a real handshake.
func c11Handshake(res *vlib.Result, label, class, tok string) {
	res.Evals++
	cc, sc := c11Cfgs(tok)
	r := hsRun(hsOpts{ClientCfg: cc, ServerCfg: sc, App: true})
	if r.S.Neg != nil {
		security.GetSessionCache().Invalidate(r.S.Neg.SessionId)
	}
	valid, sub, why := refVerify(tok, time.Now().Unix())
	if len(r.C2S) > 1 {
		res.Nontrivial++
	}
	if r.S.Panic != "" || r.C.Panic != "" {
		res.Violate("C11/panic/"+class, "%s: %s%s", label, r.S.Panic, r.C.Panic)
		return
	}
	if r.S.Err == nil {
		if !valid {
			res.Violate("C11/server-accepts-invalid-token/"+class, "%s: server authenticated a client whose token is not valid (%s); recorded user %q", label, why, r.S.Neg.User)
			res.Outcome("finding-accepted")
			return
		}
		if r.S.Neg.User != userOf(sub) {
			res.Violate("C11/identity-not-from-token/"+class, "%s: token subject %q but the server recorded user %q", label, sub, r.S.Neg.User)
		}
		res.Outcome("accepted-valid")
	} else {
		if valid && r.C.Err == nil {
			res.Violate("C11/client-succeeds-server-fails/"+class, "%s", label)
		}
		res.Outcome("rejected")
	}
	if r.C.Err == nil && r.S.Err != nil {
		res.Violate("C11/client-succeeds-alone/"+class, "%s: client handshake succeeded although the server's failed (%s)", label, errStr(r.S.Err))
	}
}

// c11Scripted drives the real server with the scripted AKEP2 client, which can
// send what cedar's own client refuses to (tokens without a subject, expired
// tokens, a claimed identity that is not the token's) and can deviate in each
// proof field while keeping everything else consistent.
func c11Scripted(res *vlib.Result, v c11Tok, dev peerDev) {
	res.Evals++
	_, sc := c11Cfgs("")
	dev.Token, dev.Methods, dev.ClaimLevelAuth, dev.ClaimLevelEnc, dev.NoCipher = v.tok, "TOKEN", "REQUIRED", "NEVER", true
	out := &peerOutcome{}
	r := hsRun(hsOpts{ServerCfg: sc, ClientScript: scriptedClient(dev, out), App: true})
	if r.S.Neg != nil {
		security.GetSessionCache().Invalidate(r.S.Neg.SessionId)
	}
	label := fmt.Sprintf("scripted client: token %s, claims %q, proof=%q rb-echo=%q trailing=%v", v.name, dev.TokClaim, dev.TokProof, dev.TokRBEcho, dev.TokTrail)
	if r.S.Panic != "" {
		res.Violate("C11/panic/scripted", "%s: %s", label, r.S.Panic)
		return
	}
	if out.MethodRun != "TOKEN" {
		res.Skipped++
		res.Outcome("scripted-token-not-run")
		return
	}
	res.Nontrivial++
	valid, sub, why := refVerify(v.tok, time.Now().Unix())
	honest := (dev.TokProof == "" || dev.TokProof == "for-other-id") && dev.TokRBEcho == "" && !dev.TokTrail && dev.TokStep1 == ""
	class := fmt.Sprintf("token=%s/claim=%s/proof=%s/echo=%s/trail=%v", v.name, map[bool]string{true: "sub", false: "other"}[dev.TokClaim == ""], dev.TokProof, dev.TokRBEcho, dev.TokTrail)
	if dev.TokStep1 != "" {
		class = fmt.Sprintf("token=%s/step1=%s", v.name, dev.TokStep1)
	}
	if r.S.Err == nil && r.S.Neg != nil {
		switch {
		case !valid:
			res.Violate("C11/server-accepts-invalid-token/scripted/"+class, "%s: the server authenticated the client although the token is not valid (%s); recorded user %q", label, why, r.S.Neg.User)
		case !honest:
			res.Violate("C11/server-accepts-bad-proof/scripted/"+class, "%s: the server authenticated a client that did not present a correct proof / echo; recorded user %q", label, r.S.Neg.User)
		case r.S.Neg.User != userOf(sub):
			res.Violate("C11/identity-follows-claim/scripted/"+class, "%s: token subject %q but the server recorded user %q", label, sub, r.S.Neg.User)
		}
		res.Outcome("scripted-accepted")
		return
	}
	if valid && honest && dev.TokClaim == "" {
		res.Violate("C11/server-rejects-valid-client/scripted/"+class, "%s: a correct exchange with a valid token was refused: %s", label, errStr(r.S.Err))
	}
	// a server that holds the key proves it in step 2 whenever the token is valid
	if valid && dev.TokStep1 == "" && !out.TokServerProofOK && out.TokStep2Status == 0 {
		res.Violate("C11/server-proof-wrong/scripted/"+class, "%s: the server's step-2 proof does not verify under the key derived from the token", label)
	}
	res.Outcome("scripted-rejected")
}

// c11Boundary judges the time claims AT their limits. Tokens are minted for a
// chosen wall-clock second T a little in the future; the harness waits until the
// clock reads T, runs the verification (microseconds) or the scripted handshake
// (milliseconds), and keeps the verdict only if the clock still reads T
// afterwards - otherwise it re-aligns on a later second. No verdict depends on
// how long anything took.
func c11Boundary(res *vlib.Result, viaHandshake bool) {
	e := getTokenEnv()
	type bt struct {
		name  string
		claim func(T int64) map[string]any
		valid bool
	}
	base := func(T int64, over map[string]any) map[string]any {
		p := map[string]any{"sub": "alice@verif.domain", "iss": "verif.domain", "iat": T - 10, "exp": T + 3600, "jti": "abcdef0123456789"}
		for k, v := range over {
			p[k] = v
		}
		return p
	}
	cases := []bt{
		{"exp==now", func(T int64) map[string]any { return base(T, map[string]any{"exp": T}) }, false},
		{"exp==now+1", func(T int64) map[string]any { return base(T, map[string]any{"exp": T + 1}) }, true},
		{"exp==now-1", func(T int64) map[string]any { return base(T, map[string]any{"exp": T - 1}) }, false},
		{"iat==now-maxage", func(T int64) map[string]any { return base(T, map[string]any{"iat": T - c11MaxAge}) }, true},
		{"iat==now-maxage-1", func(T int64) map[string]any { return base(T, map[string]any{"iat": T - c11MaxAge - 1}) }, false},
		{"iat==now", func(T int64) map[string]any { return base(T, map[string]any{"iat": T}) }, true},
	}
	for _, c := range cases {
		aligned := false
		for attempt := 0; attempt < 8 && !aligned; attempt++ {
			T := time.Now().Unix() + 1
			tok := mintToken(e.PoolKey, "POOL", nil, c.claim(T))
			for time.Now().Unix() < T {
				time.Sleep(200 * time.Microsecond)
			}
			var accepted bool
			var detail string
			if viaHandshake {
				_, sc := c11Cfgs("")
				out := &peerOutcome{}
				r := hsRun(hsOpts{ServerCfg: sc, ClientScript: scriptedClient(peerDev{Token: tok, Methods: "TOKEN", ClaimLevelAuth: "REQUIRED", ClaimLevelEnc: "NEVER", NoCipher: true}, out), App: true})
				if r.S.Neg != nil {
					security.GetSessionCache().Invalidate(r.S.Neg.SessionId)
				}
				accepted, detail = r.S.Err == nil && r.S.Neg != nil, errStr(r.S.Err)
			} else {
				_, sc := c11Cfgs("")
				_, err := security.VerifyIDToken(tok, sc)
				accepted, detail = err == nil, errStr(err)
			}
			if time.Now().Unix() != T {
				continue // the clock moved on during the call: no verdict, align again
			}
			aligned = true
			res.Evals++
			res.Nontrivial++
			refValid, _, why := refVerify(tok, T)
			if refValid != c.valid {
				res.Violate("C11/harness-boundary", "%s: reference verdict %v (%s) differs from the table", c.name, refValid, why)
				continue
			}
			how := map[bool]string{true: "handshake", false: "verify"}[viaHandshake]
			if accepted && !c.valid {
				res.Violate("C11/time-boundary/accepts-invalid/"+how+"/"+c.name, "token with %s evaluated during that very second was accepted (%s)", c.name, how)
			}
			if !accepted && c.valid {
				res.Violate("C11/time-boundary/rejects-valid/"+how+"/"+c.name, "token with %s evaluated during that very second was rejected (%s): %s", c.name, how, detail)
			}
			res.Outcome("boundary-" + c.name + "-" + map[bool]string{true: "accepted", false: "rejected"}[accepted])
		}
		if !aligned {
			res.Skipped++
			res.Outcome("boundary-not-aligned")
		}
	}
}

// c11VerifyHistory: standalone verification is a function of (token, the verifier's keys and
// limits, now) - not of what was verified before. Sequences of VerifyIDToken calls with
// three verifier configurations (the usual one; one whose key directory holds a DIFFERENT
// key under the name k1; one with a much shorter maximum age) over three tokens; every
// call is judged by the reference for ITS configuration.
// c11CachingReader: a CredentialReader that reads each file once and afterwards returns the
// same slice (a reader may cache; the bytes it returns are its own).
type c11CachingReader struct {
	mu    sync.Mutex
	files map[string][]byte
}

func (r *c11CachingReader) ReadCredential(path string) ([]byte, error) {
	r.mu.Lock()
	defer r.mu.Unlock()
	if b, ok := r.files[path]; ok {
		return b, nil
	}
	b, err := os.ReadFile(path)
	if err != nil {
		return nil, err
	}
	r.files[path] = b
	return b, nil
}

func c11VerifyHistory(res *vlib.Result) {
	e := getTokenEnv()
	now := time.Now().Unix()
	claims := func(iat int64) map[string]any {
		return map[string]any{"sub": "alice@verif.domain", "iss": "verif.domain", "iat": iat, "exp": now + 3600, "jti": "0123456789abcdef"}
	}
	toks := []struct{ name, tok string }{
		{"k1-fresh", mintToken(e.K1, "k1", map[string]any{"alg": "HS256", "typ": "JWT", "kid": "k1"}, claims(now-10))},
		{"k1-1000s-old", mintToken(e.K1, "k1", map[string]any{"alg": "HS256", "typ": "JWT", "kid": "k1"}, claims(now-1000))},
		{"pool-1000s-old", mintToken(e.PoolKey, "POOL", nil, claims(now-1000))},
		// keys whose length is not a multiple of 4: the genuine token, and tokens signed with the key
		// cut back to a multiple of 4 and zero-padded (what a word-wise descrambler would leave)
		{"k33-fresh", mintToken([]byte(c11Key33), "k33", map[string]any{"alg": "HS256", "typ": "JWT", "kid": "k33"}, claims(now-10))},
		{"k33-signed-with-zeroed-tail", mintToken([]byte(c11Key33[:32]+"\x00"), "k33", map[string]any{"alg": "HS256", "typ": "JWT", "kid": "k33"}, claims(now-10))},
		{"k6-fresh", mintToken([]byte(c11Key6), "k6", map[string]any{"alg": "HS256", "typ": "JWT", "kid": "k6"}, claims(now-10))},
		{"k6-signed-with-zeroed-tail", mintToken([]byte(c11Key6[:4]+"\x00\x00"), "k6", map[string]any{"alg": "HS256", "typ": "JWT", "kid": "k6"}, claims(now-10))},
	}
	// a second key directory: same name k1, different key
	otherDir := filepath.Join(e.Dir, "keys-other")
	_ = os.MkdirAll(otherDir, 0o700)
	_ = os.WriteFile(filepath.Join(otherDir, "k1"), scramble([]byte("another_named_key_k1_32_bytes!!!")), 0o600)
	type vcfg struct {
		name    string
		cfg     *security.SecurityConfig
		k1Match bool
		maxAge  int64
	}
	mk := func(dir string, maxAge int) *security.SecurityConfig {
		_, sc := c11Cfgs("")
		sc.TokenSigningKeyDir, sc.TokenMaxAge = dir, maxAge
		return sc
	}
	cached := mk(e.KeyDir, c11MaxAge)
	cached.Credentials = &c11CachingReader{files: map[string][]byte{}}
	cfgs := []vcfg{
		{"usual", mk(e.KeyDir, c11MaxAge), true, c11MaxAge},
		// a verifier whose credential reader caches: every load of a key file is handed the SAME bytes
		{"caching-credential-reader", cached, true, c11MaxAge},
		{"other-k1-key", mk(otherDir, c11MaxAge), false, c11MaxAge},
		{"max-age-500", mk(e.KeyDir, 500), true, 500},
	}
	want := func(ti, ci int) bool {
		if ti < 2 && !cfgs[ci].k1Match {
			return false // signed by a k1 this verifier does not hold
		}
		if ti >= 3 {
			// the odd-length keys exist only in the usual key directory; the zeroed-tail forgeries never verify
			return cfgs[ci].k1Match && (ti == 3 || ti == 5)
		}
		age := int64(10)
		if ti >= 1 {
			age = 1000
		}
		return age <= cfgs[ci].maxAge
	}
	// all sequences of two calls (first call may "warm" whatever the verifier remembers)
	for t1 := range toks {
		for c1 := range cfgs {
			for t2 := range toks {
				for c2 := range cfgs {
					res.Evals++
					res.Nontrivial++
					_, e1 := security.VerifyIDToken(toks[t1].tok, cfgs[c1].cfg)
					_, e2 := security.VerifyIDToken(toks[t2].tok, cfgs[c2].cfg)
					for k, got := range []bool{e1 == nil, e2 == nil} {
						ti, ci := []int{t1, t2}[k], []int{c1, c2}[k]
						if got != want(ti, ci) {
							res.Violate(fmt.Sprintf("C11/verify-depends-on-history/%s/%s", toks[ti].name, cfgs[ci].name), "call %d of [verify(%s, %s); verify(%s, %s)]: accepted=%v, the reference for that verifier says %v", k+1, toks[t1].name, cfgs[c1].name, toks[t2].name, cfgs[c2].name, got, want(ti, ci))
						}
					}
				}
			}
		}
	}
	res.Outcome("verify-history-ok")
}

// c11Fallback: both sides list TOKEN and SSL. When the token exchange fails and the
// handshake then completes through SSL (which establishes no client identity), nothing
// of the failed token - in particular its subject - may end up as the session's identity.
func c11Fallback(res *vlib.Result, v c11Tok) {
	res.Evals++
	cc := baseCfg(security.SecurityRequired, security.SecurityNever, []security.AuthMethod{mTOK, security.AuthSSL}, nil, false)
	sc := baseCfg(security.SecurityRequired, security.SecurityNever, []security.AuthMethod{mTOK, security.AuthSSL}, nil, true)
	cc.Token, cc.IssuerKeys, sc.TokenMaxAge = v.tok, nil, c11MaxAge
	r := hsRun(hsOpts{ClientCfg: cc, ServerCfg: sc, App: true})
	if r.S.Neg != nil {
		security.GetSessionCache().Invalidate(r.S.Neg.SessionId)
	}
	if r.S.Panic != "" || r.C.Panic != "" {
		res.Violate("C11/panic/fallback", "token %s: %s%s", v.name, r.S.Panic, r.C.Panic)
		return
	}
	if r.S.Err != nil || r.S.Neg == nil {
		res.Outcome("fallback-handshake-failed")
		return
	}
	res.Nontrivial++
	valid, sub, why := refVerify(v.tok, time.Now().Unix())
	method := string(r.S.Neg.NegotiatedAuth)
	// the subject the (possibly invalid) token names
	claimed := ""
	if parts := strings.Split(v.tok, "."); len(parts) == 3 {
		if pb, err := base64.RawURLEncoding.DecodeString(parts[1]); err == nil {
			var c map[string]any
			if json.Unmarshal(pb, &c) == nil {
				claimed, _ = c["sub"].(string)
			}
		}
	}
	if method == "TOKEN" {
		if !valid {
			res.Violate("C11/server-accepts-invalid-token/fallback/"+v.name, "token %s (%s) authenticated by TOKEN", v.name, why)
		} else if r.S.Neg.User != userOf(sub) {
			res.Violate("C11/identity-not-from-token/fallback/"+v.name, "subject %q, recorded %q", sub, r.S.Neg.User)
		}
		res.Outcome("fallback-token-succeeded")
		return
	}
	if !valid && claimed != "" && r.S.Neg.User == userOf(claimed) {
		res.Violate("C11/identity-from-failed-token/"+v.name, "token %s is not valid (%s) and the handshake completed through %s, yet the server recorded the token's subject %q as the session's user", v.name, why, method, r.S.Neg.User)
	}
	res.Outcome("fallback-completed-by-" + method)
}

// AKEP2 message positions in a TOKEN handshake (frame index per direction).
const (
	c11Step1 = 2 // c2s
	c11Step3 = 3 // c2s
	c11Step2 = 2 // s2c
)

type c11Mut struct {
	dir   string
	frame int
	kind  string // flip, truncate, append, claimed-id, field
	off   int
	mask  byte
	newID string
	field int    // kind "field": index into the message layout
	op    string // kind "field": what to do with that field
}

// AKEP2 message layouts on a plaintext stream (ints are 8 bytes; an id string is
// an int length + NUL-terminated bytes; raw is an int length + that many bytes).
var c11Layouts = map[string][]string{
	"step1": {"int:status", "idstr:client-id", "cstr:token", "raw:RA"},
	"step2": {"int:status", "idstr:client-id-echo", "idstr:server-id", "raw:RA-echo", "raw:RB", "raw:server-proof"},
	"step3": {"int:status", "idstr:client-id-echo", "raw:RB-echo", "raw:client-proof"},
}

type c11Field struct {
	kind, name string
	lo, hi     int // whole field incl. its length prefix
}

func c11Parse(layout []string, p []byte) ([]c11Field, bool) {
	var out []c11Field
	off := 0
	for _, l := range layout {
		kn := strings.SplitN(l, ":", 2)
		f := c11Field{kind: kn[0], name: kn[1], lo: off}
		switch kn[0] {
		case "int":
			off += 8
		case "idstr", "cstr":
			if kn[0] == "idstr" {
				off += 8
			}
			for off < len(p) && p[off] != 0 {
				off++
			}
			off++
		case "raw":
			if off+8 > len(p) {
				return nil, false
			}
			off += 8 + int(binary.BigEndian.Uint64(p[off:]))
		}
		if off > len(p) {
			return nil, false
		}
		f.hi = off
		out = append(out, f)
	}
	return out, off == len(p)
}

func c11Int(v int64) []byte {
	b := make([]byte, 8)
	binary.BigEndian.PutUint64(b, uint64(v))
	return b
}

// c11FieldOps lists the field-aware alterations for a field kind.
func c11FieldOps(kind string) []string {
	switch kind {
	case "int":
		return []string{"=1", "=-1", "=2", "=256"}
	case "raw":
		// the last four change several bytes so that the byte-wise differences cancel under
		// addition (2 x 0x80, 4 x 0x40, 16 x 0x10, every byte ^0x80) or under xor (two equal deltas)
		return []string{"empty", "first-byte-only", "drop-last", "extra-zero", "all-zero", "len0-bytes-kept", "len-1-bytes-kept", "top-bit-x2", "0x40-x4", "0x10-x16", "top-bit-all", "same-delta-x2"}
	case "idstr":
		return []string{"empty", "other", "plus-char"}
	}
	return nil
}

func c11ApplyField(p []byte, f c11Field, op string) []byte {
	var nf []byte
	old := p[f.lo:f.hi]
	switch f.kind {
	case "int":
		v := map[string]int64{"=1": 1, "=-1": -1, "=2": 2, "=256": 256}[op]
		nf = c11Int(v)
	case "raw":
		body := old[8:]
		switch op {
		case "empty":
			nf = c11Int(0)
		case "first-byte-only":
			nf = append(c11Int(1), body[:min(1, len(body))]...)
		case "drop-last":
			nf = append(c11Int(int64(len(body)-1)), body[:len(body)-1]...)
		case "extra-zero":
			nf = append(append(c11Int(int64(len(body)+1)), body...), 0)
		case "all-zero":
			nf = append(c11Int(int64(len(body))), make([]byte, len(body))...)
		case "len0-bytes-kept":
			nf = append(c11Int(0), body...)
		case "len-1-bytes-kept":
			nf = append(c11Int(int64(len(body)-1)), body...)
		case "top-bit-x2", "0x40-x4", "0x10-x16", "top-bit-all", "same-delta-x2":
			n, d := map[string]int{"top-bit-x2": 2, "0x40-x4": 4, "0x10-x16": 16, "top-bit-all": len(body), "same-delta-x2": 2}[op], map[string]byte{"top-bit-x2": 0x80, "0x40-x4": 0x40, "0x10-x16": 0x10, "top-bit-all": 0x80, "same-delta-x2": 0x55}[op]
			nb := append([]byte(nil), body...)
			for i := 0; i < n && i < len(nb); i++ {
				nb[i] ^= d
			}
			nf = append(c11Int(int64(len(nb))), nb...)
		}
	case "idstr":
		id := string(old[8 : len(old)-1])
		switch op {
		case "empty":
			id = ""
		case "other":
			id = "bob@verif.domain"
		case "plus-char":
			id += "x"
		}
		nf = append(append(c11Int(int64(len(id))), id...), 0)
	}
	out := append([]byte(nil), p[:f.lo]...)
	out = append(out, nf...)
	return append(out, p[f.hi:]...)
}

// step1Fields returns the byte range [lo,hi) of the claimed client id inside
// the step-1 payload: status(8) idlen(8) id NUL token NUL ralen(8) ra.
func step1ID(payload []byte) (lo, hi int) {
	lo = 16
	hi = lo
	for hi < len(payload) && payload[hi] != 0 {
		hi++
	}
	return
}

func c11Relay(res *vlib.Result, m c11Mut) {
	res.Evals++
	tok := goodToken("alice@verif.domain")
	cc, sc := c11Cfgs(tok)
	applied := false
	inID := false
	fieldParseFailed := false
	fieldName := ""
	hook := func(dir string) func(int, []byte) [][]byte {
		return func(i int, fr []byte) [][]byte {
			if dir != m.dir || i != m.frame {
				return [][]byte{fr}
			}
			g := append([]byte(nil), fr...)
			switch m.kind {
			case "flip":
				if m.off >= len(g) {
					return [][]byte{fr}
				}
				g[m.off] ^= m.mask
				if m.dir == "c2s" && m.frame == c11Step1 {
					lo, hi := step1ID(fr[5:])
					// the id-length field (payload bytes 8..16) is part of the claim too
					inID = (m.off-5 >= lo && m.off-5 < hi)
				}
			case "truncate":
				if m.off >= len(g)-5 {
					return [][]byte{fr}
				}
				g = g[:5+m.off]
				binary.BigEndian.PutUint32(g[1:5], uint32(m.off))
			case "append":
				g = append(g, bytes.Repeat([]byte{m.mask}, m.off)...)
				binary.BigEndian.PutUint32(g[1:5], uint32(len(g)-5))
			case "field":
				name := map[string]string{"c2s/2": "step1", "c2s/3": "step3", "s2c/2": "step2"}[fmt.Sprintf("%s/%d", m.dir, m.frame)]
				fs, ok := c11Parse(c11Layouts[name], fr[5:])
				if !ok || m.field >= len(fs) {
					fieldParseFailed = true
					return [][]byte{fr}
				}
				np := c11ApplyField(fr[5:], fs[m.field], m.op)
				g = append(append([]byte(nil), fr[:5]...), np...)
				binary.BigEndian.PutUint32(g[1:5], uint32(len(np)))
				inID = fs[m.field].kind == "idstr"
				fieldName = fs[m.field].name
			case "claimed-id":
				p := fr[5:]
				lo, hi := step1ID(p)
				np := append([]byte(nil), p[:8]...)
				np = append(np, make([]byte, 8)...)
				binary.BigEndian.PutUint64(np[8:16], uint64(len(m.newID)))
				np = append(np, []byte(m.newID)...)
				np = append(np, p[hi:]...)
				_ = lo
				g = append(append([]byte(nil), fr[:5]...), np...)
				binary.BigEndian.PutUint32(g[1:5], uint32(len(np)))
				inID = true
			}
			applied = true
			return [][]byte{g}
		}
	}
	r := hsRun(hsOpts{ClientCfg: cc, ServerCfg: sc, App: true, HookC2S: hook("c2s"), HookS2C: hook("s2c")})
	if r.S.Neg != nil {
		security.GetSessionCache().Invalidate(r.S.Neg.SessionId)
	}
	if fieldParseFailed {
		res.Violate("C11/harness-layout", "%s frame %d does not parse under the AKEP2 layout the harness assumes", m.dir, m.frame)
		return
	}
	if !applied {
		res.Skipped++
		return
	}
	res.Nontrivial++
	msg := map[string]string{"c2s/2": "step1", "c2s/3": "step3", "s2c/2": "step2"}[fmt.Sprintf("%s/%d", m.dir, m.frame)]
	label := fmt.Sprintf("%s %s@%d^%02x id=%q", msg, m.kind, m.off, m.mask, m.newID)
	if m.kind == "field" {
		label = fmt.Sprintf("%s field %s %s", msg, fieldName, m.op)
	}
	if r.S.Panic != "" || r.C.Panic != "" {
		res.Violate("C11/panic/relay-"+msg, "%s: %s%s", label, r.S.Panic, r.C.Panic)
		return
	}
	if inID {
		// only the claimed identity changed: the recorded identity must still be the token's
		if r.S.Err == nil && r.S.Neg.User != "alice" {
			res.Violate("C11/identity-follows-claim", "%s: client-claimed identity altered in transit and the server recorded user %q instead of the token subject", label, r.S.Neg.User)
		}
		res.Outcome("claimed-id-altered-" + map[bool]string{true: "accepted-as-alice", false: "rejected"}[r.S.Err == nil])
		return
	}
	if m.kind == "append" || (m.kind == "flip" && m.off < 5) {
		// framing-only alteration (end flag / length field / bytes after the message):
		// every proof byte still arrives unmodified, so success is not by itself a
		// violation; the recorded identity must be unaffected.
		if r.S.Err == nil && r.S.Neg.User != "alice" {
			res.Violate("C11/identity-changed-by-framing", "%s: recorded user %q", label, r.S.Neg.User)
		}
		res.Outcome("framing-only-alteration-" + map[bool]string{true: "tolerated", false: "rejected"}[r.S.Err == nil && r.C.Err == nil])
		return
	}
	if m.kind == "field" {
		// the same verdicts, keyed by field
		if m.dir == "c2s" && r.S.Err == nil {
			res.Violate(fmt.Sprintf("C11/server-accepts-altered-proof/%s/%s/%s", msg, fieldName, m.op), "%s: the server still authenticated the client (user %q)", label, r.S.Neg.User)
			return
		}
		if m.dir == "s2c" && r.C.Err == nil {
			res.Violate(fmt.Sprintf("C11/client-accepts-altered-proof/%s/%s/%s", msg, fieldName, m.op), "%s: the client still accepted the server", label)
			return
		}
		res.Outcome("field-altered-" + msg + "-rejected")
		return
	}
	if m.dir == "c2s" && r.S.Err == nil {
		res.Violate(fmt.Sprintf("C11/server-accepts-altered-proof/%s/%s", msg, m.kind), "%s: a client message was altered in transit and the server still authenticated the client", label)
		res.Outcome("VIOLATION")
		return
	}
	if m.dir == "s2c" && r.C.Err == nil {
		res.Violate(fmt.Sprintf("C11/client-accepts-altered-proof/%s/%s", msg, m.kind), "%s: the server's message was altered in transit and the client still accepted the server", label)
		res.Outcome("VIOLATION")
		return
	}
	res.Outcome("altered-" + msg + "-rejected")
}

func c11Verify(res *vlib.Result, label, class, tok string) {
	res.Evals++
	res.Nontrivial++
	_, sc := c11Cfgs("")
	cl, err := security.VerifyIDToken(tok, sc)
	valid, sub, why := refVerify(tok, time.Now().Unix())
	if err == nil && !valid {
		res.Violate("C11/verify-accepts-invalid/"+class, "%s: VerifyIDToken accepted a token the reference rejects (%s)", label, why)
		return
	}
	if err != nil && valid {
		res.Violate("C11/verify-rejects-valid/"+class, "%s: VerifyIDToken rejected a valid token: %v", label, err)
		return
	}
	if err == nil && cl.Subject != sub {
		res.Violate("C11/verify-subject/"+class, "%s: subject %q, reference %q", label, cl.Subject, sub)
	}
	res.Outcome(map[bool]string{true: "verify-accept", false: "verify-reject"}[err == nil])
}

func C11Plan() *vlib.Plan {
	p := &vlib.Plan{
		Property: "C11", Level: "fault_enumeration",
		Rule:   "E-FAULT: (1) 20 token variants and every single-bit flip of a valid token string, each through a real client/server TOKEN handshake (no cipher, so the AKEP2 result is the result); (2) for each of the three AKEP2 messages: every byte offset (header and payload) x {^01,^80}, truncation at every 8th byte, 1/8 trailing bytes appended, for step 1 a field-aware substitution of the claimed client identity by {bob, empty, +1 char}, and field-aware alterations of every field of every message (status := 1/-1/2/256; each proof, nonce and nonce echo := empty / first byte only / last byte dropped / one zero byte added / all zero / length 0 or length-1 with the bytes kept / several bytes changed so that the differences cancel (2 x ^80, 4 x ^40, 16 x ^10, every byte ^80, 2 x ^55); each identity echo := empty / bob / +1 char); (3) VerifyIDToken on the same variants and bit flips; (4) an independent scripted AKEP2 client (own HKDF/HMAC arithmetic) against the real server: 20 token variants (incl. those cedar's client refuses to send) x claimed identity {the subject, bob, root} x proof {honest, empty, wrong, computed over the identity the server echoed} x RB echo {honest, empty, wrong} x {no, one} trailing byte, and a client that sends step 1 in a frame not marked end-of-message followed by an invalid frame header or a close and never presents a proof; (5) time claims AT their limits (exp = now-1 / now / now+1, iat = now / now-max / now-max-1) through VerifyIDToken and through the scripted client, each call aligned on a wall-clock second and kept only if the clock still shows that second afterwards; (6) every token variant with TOKEN and SSL listed on both sides: when the token exchange fails and SSL completes the handshake, the failed token's subject must not become the session's identity; (7) all pairs of successive VerifyIDToken calls over 7 tokens (incl. tokens under named keys of 33 and 6 bytes and forgeries signed with those keys' 4-aligned, zero-padded prefixes) x 4 verifier configurations (usual; one whose credential reader caches and hands out the same bytes on every load; another key under the same key id; shorter maximum age): each verdict is that of the reference for its own configuration, whatever was verified before. Oracle: independent HKDF+HMAC verifier with the same time rules (variants sit 120 s away from the limits); server success => token valid and no client message altered outside the claimed-identity field; client success => server message unaltered; recorded user = token subject. Non-trivial = the mutated element reached the receiving side.",
		Assume: []string{"base64 decoding is shared with the code (non-canonical trailing bits that decode identically are the same token)", "time-dependent variants are 120 s away from the boundary"},
	}
	p.Gen = func(tier string, yield func(vlib.Case)) {
		vars := c11Variants()
		for _, v := range vars {
			v := v
			yield(vlib.Case{ID: "variant/" + v.name, Run: func() *vlib.Result {
				res := &vlib.Result{}
				c11Handshake(res, "token variant "+v.name, "variant-"+v.name, v.tok)
				c11Verify(res, "token variant "+v.name, "variant-"+v.name, v.tok)
				// a client that never gets past step 1 (and so never presents a proof)
				for _, s1 := range []string{"no-eom-then-bad-header", "no-eom-then-close"} {
					c11Scripted(res, v, peerDev{TokStep1: s1})
				}
				res.Sample = v.name
				return res
			}})
		}
		for _, v := range vars {
			v := v
			yield(vlib.Case{ID: "scripted/" + v.name, Run: func() *vlib.Result {
				res := &vlib.Result{}
				for _, claim := range []string{"", "bob@verif.domain", "root@verif.domain"} {
					for _, proof := range []string{"", "empty", "wrong", "for-other-id"} {
						for _, echo := range []string{"", "empty", "wrong"} {
							for _, trail := range []bool{false, true} {
								c11Scripted(res, v, peerDev{TokClaim: claim, TokProof: proof, TokRBEcho: echo, TokTrail: trail})
							}
						}
					}
				}
				res.Sample = v.name
				return res
			}})
		}
		for _, v := range vars {
			v := v
			yield(vlib.Case{ID: "fallback-to-ssl/" + v.name, Run: func() *vlib.Result {
				res := &vlib.Result{}
				c11Fallback(res, v)
				return res
			}})
		}
		yield(vlib.Case{ID: "verify-history", Run: func() *vlib.Result {
			res := &vlib.Result{}
			c11VerifyHistory(res)
			return res
		}})
		yield(vlib.Case{ID: "time-boundary/verify", Run: func() *vlib.Result {
			res := &vlib.Result{}
			c11Boundary(res, false)
			return res
		}})
		yield(vlib.Case{ID: "time-boundary/handshake", Run: func() *vlib.Result {
			res := &vlib.Result{}
			c11Boundary(res, true)
			return res
		}})
		good := vars[0].tok
		d1 := strings.Index(good, ".")
		d2 := strings.LastIndex(good, ".")
		part := func(i int) string {
			switch {
			case i < d1:
				return "header"
			case i == d1 || i == d2:
				return "dot"
			case i < d2:
				return "payload"
			}
			return "signature"
		}
		p.Bounds = map[string]any{"token_len": len(good), "variants": len(vars)}
		for i := 0; i < len(good); i++ {
			i := i
			yield(vlib.Case{ID: fmt.Sprintf("bitflip/token@%d", i), Run: func() *vlib.Result {
				res := &vlib.Result{}
				for bit := 0; bit < 8; bit++ {
					b := []byte(good)
					b[i] ^= 1 << uint(bit)
					if b[i] == 0 {
						continue
					}
					lab := fmt.Sprintf("token byte %d (%s) bit %d", i, part(i), bit)
					c11Handshake(res, lab, "bitflip-"+part(i), string(b))
					c11Verify(res, lab, "bitflip-"+part(i), string(b))
				}
				return res
			}})
		}
		// relay mutations: learn the frame lengths from one honest run
		cc, sc := c11Cfgs(good)
		r := hsRun(hsOpts{ClientCfg: cc, ServerCfg: sc, App: true})
		if r.C.Err != nil || r.S.Err != nil || len(r.C2S) < 4 || len(r.S2C) < 3 {
			yield(vlib.Case{ID: "layout", Run: func() *vlib.Result {
				x := &vlib.Result{}
				x.Violate("C11/harness-layout", "honest TOKEN handshake failed: %v / %v", r.C.Err, r.S.Err)
				return x
			}})
			return
		}
		security.GetSessionCache().Invalidate(r.S.Neg.SessionId)
		type pos struct {
			dir   string
			frame int
			n     int
		}
		for _, ps := range []pos{{"c2s", c11Step1, len(r.C2S[c11Step1])}, {"c2s", c11Step3, len(r.C2S[c11Step3])}, {"s2c", c11Step2, len(r.S2C[c11Step2])}} {
			ps := ps
			for off := 0; off < ps.n; off++ {
				off := off
				yield(vlib.Case{ID: fmt.Sprintf("relay/%s#%d/flip@%d", ps.dir, ps.frame, off), Run: func() *vlib.Result {
					res := &vlib.Result{}
					c11Relay(res, c11Mut{dir: ps.dir, frame: ps.frame, kind: "flip", off: off, mask: 0x01})
					c11Relay(res, c11Mut{dir: ps.dir, frame: ps.frame, kind: "flip", off: off, mask: 0x80})
					return res
				}})
			}
			{
				name := map[string]string{"c2s/2": "step1", "c2s/3": "step3", "s2c/2": "step2"}[fmt.Sprintf("%s/%d", ps.dir, ps.frame)]
				for fi, l := range c11Layouts[name] {
					fi, kind := fi, strings.SplitN(l, ":", 2)[0]
					if len(c11FieldOps(kind)) == 0 {
						continue
					}
					yield(vlib.Case{ID: fmt.Sprintf("relay/%s/field=%s", name, l), Run: func() *vlib.Result {
						res := &vlib.Result{}
						for _, op := range c11FieldOps(kind) {
							c11Relay(res, c11Mut{dir: ps.dir, frame: ps.frame, kind: "field", field: fi, op: op})
						}
						return res
					}})
				}
			}
			yield(vlib.Case{ID: fmt.Sprintf("relay/%s#%d/truncate+append", ps.dir, ps.frame), Run: func() *vlib.Result {
				res := &vlib.Result{}
				for off := 0; off < ps.n-5; off += 8 {
					c11Relay(res, c11Mut{dir: ps.dir, frame: ps.frame, kind: "truncate", off: off})
				}
				c11Relay(res, c11Mut{dir: ps.dir, frame: ps.frame, kind: "append", off: 1, mask: 0})
				c11Relay(res, c11Mut{dir: ps.dir, frame: ps.frame, kind: "append", off: 8, mask: 0x41})
				return res
			}})
		}
		for _, nid := range []string{"bob@verif.domain", "", "alice@verif.domainX", "root@verif.domain"} {
			nid := nid
			yield(vlib.Case{ID: "relay/claimed-id/" + nid, Run: func() *vlib.Result {
				res := &vlib.Result{}
				c11Relay(res, c11Mut{dir: "c2s", frame: c11Step1, kind: "claimed-id", newID: nid})
				return res
			}})
		}
	}
	return p
}
