package props

// C04 — the cleartext handshake is bound into the secure channel.
// E-FAULT: a relay between two real endpoints (both REQUIRE encryption)
// applies exactly one fault to the pre-encryption transcript: every byte offset
// of every cleartext frame x substitutes, empty-frame insertion, frame removal,
// duplication, split and merge. Oracle: if anything was altered and both sides
// still finish the handshake, neither side may accept an application message.

import (
	"context"
	"encoding/binary"
	"fmt"
	"github.com/bbockelm/cedar/stream"
	"strings"
	"verif/netsim"

	"github.com/bbockelm/cedar/security"

	"verif/refcodec"
	"verif/vlib"
)

type c04Shape struct {
	name    string
	auth    security.SecurityLevel
	methods []security.AuthMethod
	resumed bool
	noReply bool                   // resumed by a scripted requester that asks for no reply: cleartext in ONE direction only
	encC    security.SecurityLevel // the two sides' encryption levels; "" = REQUIRED
	encS    security.SecurityLevel
	pad     int // > 0: both endpoints carry a Subsystem name of that many bytes, so each security ad is just below the 4 KiB an ad may have and each direction's cleartext exceeds it
}

func (sh c04Shape) enc() (c, s security.SecurityLevel) {
	c, s = sh.encC, sh.encS
	if c == "" {
		c = security.SecurityRequired
	}
	if s == "" {
		s = security.SecurityRequired
	}
	return
}

var c04Shapes = []c04Shape{
	{"noauth", security.SecurityNever, []security.AuthMethod{mCTB}, false, false, "", "", 0},
	{"claimtobe", security.SecurityRequired, []security.AuthMethod{mCTB}, false, false, "", "", 0},
	{"token", security.SecurityRequired, []security.AuthMethod{mTOK}, false, false, "", "", 0},
	{"resumed", security.SecurityRequired, []security.AuthMethod{mCTB}, true, false, "", "", 0},
	{"resumed-noreply", security.SecurityRequired, []security.AuthMethod{mCTB}, true, true, "", "", 0},
	// encryption not REQUIRED by anybody: where the connection still ends up protected the
	// whole cleartext negotiation is bound all the same
	{"claimtobe-enc-optional", security.SecurityRequired, []security.AuthMethod{mCTB}, false, false, security.SecurityOptional, security.SecurityOptional, 0},
	{"claimtobe-enc-preferred", security.SecurityRequired, []security.AuthMethod{mCTB}, false, false, security.SecurityPreferred, security.SecurityOptional, 0},
	{"token-enc-optional", security.SecurityRequired, []security.AuthMethod{mTOK}, false, false, security.SecurityOptional, security.SecurityPreferred, 0},
	{"noauth-enc-optional", security.SecurityNever, []security.AuthMethod{mCTB}, false, false, security.SecurityOptional, security.SecurityOptional, 0},
	// long cleartext: the negotiation frames that FOLLOW a large (legal) security ad are bound too
	{"claimtobe-large-ads", security.SecurityRequired, []security.AuthMethod{mCTB}, false, false, "", "", 3500},
	{"token-large-ads", security.SecurityRequired, []security.AuthMethod{mTOK}, false, false, "", "", 3500},
}

type c04Fault struct {
	dir   string // "c2s" / "s2c"
	frame int
	kind  string // flip, ins0, ins1, drop, dup, split, merge
	off   int
	mask  byte
}

func (f c04Fault) String() string {
	if f.kind == "flip" {
		return fmt.Sprintf("%s#%d/flip@%d^%02x", f.dir, f.frame, f.off, f.mask)
	}
	return fmt.Sprintf("%s#%d/%s", f.dir, f.frame, f.kind)
}

type c04Run struct {
	r       *hsResult
	applied bool
	stuck   bool
	layout  [2][]int // frame lengths seen per direction before the fault
}

// c04Exec runs one handshake of the shape with an optional fault.
func c04Exec(sh c04Shape, flt *c04Fault) *c04Run {
	run := &c04Run{}
	encC, encS := sh.enc()
	cc := baseCfg(sh.auth, encC, sh.methods, []security.CryptoMethod{security.CryptoAES}, false)
	sc := baseCfg(sh.auth, encS, sh.methods, []security.CryptoMethod{security.CryptoAES}, true)
	cc.Command = 5
	if sh.pad > 0 {
		cc.Subsystem, sc.Subsystem = strings.Repeat("S", sh.pad), strings.Repeat("T", sh.pad)
	}
	cc.PeerName = "<" + hsServerAddr + ">"
	var r0sid string
	var r0key []byte
	if sh.resumed {
		// establish honestly first; the client's cache then holds the session
		r0 := hsRun(hsOpts{ClientCfg: cc, ServerCfg: sc, App: true})
		if r0.C.Err != nil || r0.S.Err != nil {
			run.r = r0
			return run
		}
		r0sid, r0key = r0.S.Neg.SessionId, append([]byte(nil), r0.S.Neg.GetSharedSecret()...)
		cc2 := *cc
		cc2.ECDHPublicKey = ""
		cc = &cc2
		sc = baseCfg(sh.auth, encS, sh.methods, []security.CryptoMethod{security.CryptoAES}, true)
		defer func() {
			security.GetSessionCache().Invalidate(r0.S.Neg.SessionId)
		}()
	}
	var requester func(*netsim.End) error
	obs := &c06Obs{}
	if sh.noReply {
		// the legacy form of a resumption: the request is the only cleartext of the
		// connection; the scripted requester holds the right key and binds what IT sent
		requester = c06Requester(c06Req{sid: r0sid, keyKind: "right", key: r0key, reply: false, addr: hsClientAddr, label: "c04"}, obs)
	}
	var held []byte
	mk := func(dir string) func(int, []byte) [][]byte {
		d := 0
		if dir == "s2c" {
			d = 1
		}
		return func(idx int, fr []byte) [][]byte {
			if flt == nil || flt.dir != dir {
				return [][]byte{fr}
			}
			if idx < flt.frame {
				run.layout[d] = append(run.layout[d], len(fr))
			}
			if flt.kind == "merge" && idx == flt.frame+1 && held != nil {
				a := held
				held = nil
				n := len(a) - 5 + len(fr) - 5
				m := make([]byte, 5, 5+n)
				m[0] = fr[0]
				binary.BigEndian.PutUint32(m[1:], uint32(n))
				m = append(append(m, a[5:]...), fr[5:]...)
				run.applied = true
				return [][]byte{m}
			}
			if idx != flt.frame {
				return [][]byte{fr}
			}
			switch flt.kind {
			case "flip":
				if flt.off >= len(fr) {
					return [][]byte{fr}
				}
				g := append([]byte(nil), fr...)
				g[flt.off] ^= flt.mask
				run.applied = true
				return [][]byte{g}
			case "ins0":
				run.applied = true
				return [][]byte{refcodec.MkFrame(0, nil), fr}
			case "ins1":
				run.applied = true
				return [][]byte{refcodec.MkFrame(1, nil), fr}
			case "drop":
				run.applied = true
				return nil
			case "dup":
				run.applied = true
				return [][]byte{fr, fr}
			case "split":
				body := fr[5:]
				k := len(body) / 2
				run.applied = true
				return [][]byte{refcodec.MkFrame(0, body[:k]), refcodec.MkFrame(fr[0], body[k:])}
			case "merge":
				held = append([]byte(nil), fr...)
				return nil
			}
			return [][]byte{fr}
		}
	}
	if requester != nil {
		run.r = hsRun(hsOpts{ServerCfg: sc, ClientScript: requester, App: true, HookC2S: mk("c2s"), HookS2C: mk("s2c")})
		if obs.appProt {
			run.r.C.AppGot = obs.appFromSrv
		}
		run.r.C.Resumed = true
		return run
	}
	// application phase: three messages each way, and a receiver that carries on after a
	// receive error (a handler that skips an unreadable message): on a tampered channel
	// not one of them may be accepted, not only the first
	ctx := context.Background()
	persist := func(st *stream.Stream) ([]byte, error) {
		var got []byte
		var first error
		for i := 0; i < 3; i++ {
			m, err := st.ReceiveCompleteMessage(ctx)
			if err != nil {
				if first == nil {
					first = err
				}
				continue
			}
			got = append(got, m...)
		}
		return got, first
	}
	clientAfter := func(p *hsParty) error {
		for i := 1; i <= 3; i++ {
			if err := p.Stream.SendMessage(ctx, []byte(fmt.Sprintf("ping-%d;", i))); err != nil {
				return err
			}
		}
		var err error
		p.AppGot, err = persist(p.Stream)
		return err
	}
	serverAfter := func(p *hsParty) error {
		var err error
		p.AppGot, err = persist(p.Stream)
		for i := 1; i <= 3; i++ {
			if e := p.Stream.SendMessage(ctx, []byte(fmt.Sprintf("pong-%d;", i))); e != nil {
				return e
			}
		}
		return err
	}
	run.r = hsRun(hsOpts{ClientCfg: cc, ServerCfg: sc, ClientAfter: clientAfter, ServerAfter: serverAfter, HookC2S: mk("c2s"), HookS2C: mk("s2c")})
	if run.r.S.Neg != nil {
		security.GetSessionCache().Invalidate(run.r.S.Neg.SessionId)
	}
	return run
}

// c04Layout: cleartext frames per direction in an honest run of the shape.
func c04Layout(sh c04Shape) (c2s, s2c []int, err error) {
	run := c04Exec(sh, nil)
	r := run.r
	if sh.noReply {
		if r.S.Err != nil || string(r.S.AppGot) != "ping-from-requester" || string(r.C.AppGot) != "pong-from-server" || !r.S.Stream.IsEncrypted() {
			return nil, nil, fmt.Errorf("honest %s resumption failed: server %v got %q, requester got %q", sh.name, r.S.Err, r.S.AppGot, r.C.AppGot)
		}
		return []int{len(r.C2S[0])}, nil, nil
	}
	if r.C.Err != nil || r.S.Err != nil || string(r.S.AppGot) != "ping-1;ping-2;ping-3;" || string(r.C.AppGot) != "pong-1;pong-2;pong-3;" {
		return nil, nil, fmt.Errorf("honest %s handshake failed: client %v server %v app %v/%v", sh.name, r.C.Err, r.S.Err, r.C.AppErr, r.S.AppErr)
	}
	if !r.C.Stream.IsEncrypted() || !r.S.Stream.IsEncrypted() {
		return nil, nil, fmt.Errorf("honest %s handshake did not end encrypted", sh.name)
	}
	if sh.resumed && !(r.C.Resumed && r.S.Resumed) {
		return nil, nil, fmt.Errorf("honest resumed shape was not a resumption (client %v server %v)", r.C.Resumed, r.S.Resumed)
	}
	// cleartext = everything but the pings (c2s) and the post-auth ad + pongs (s2c);
	// for a resumption the reply is cleartext and there is no post-auth ad.
	nc := len(r.C2S) - 3 // three pings
	ns := len(r.S2C) - 4 // post-auth ad + three pongs
	if sh.resumed {
		ns = len(r.S2C) - 3
	}
	for _, f := range r.C2S[:nc] {
		c2s = append(c2s, len(f))
	}
	for _, f := range r.S2C[:ns] {
		s2c = append(s2c, len(f))
	}
	return
}

func C04Plan() *vlib.Plan {
	p := &vlib.Plan{
		Property: "C04", Level: "fault_enumeration",
		Rule:   "E-FAULT: for each handshake shape (no authentication, CLAIMTOBE, TOKEN, resumed session, session resumed by a scripted requester that asks for no reply - cleartext in one direction only; both sides REQUIRE encryption; plus CLAIMTOBE / TOKEN / no authentication with encryption OPTIONAL or PREFERRED on both sides, where only data accepted on a stream that IS protected counts; plus CLAIMTOBE / TOKEN with security ads just below the 4 KiB an ad may have, so that each direction's cleartext is longer than that) a pre-pass records the cleartext frame layout; then one fault per run through a relay between two real endpoints: every byte offset of every cleartext frame (header and payload) x substitutes (the end-of-message flag byte x 7 substitute values), an empty frame (flag 0 / 1) inserted before every frame, every frame removed / duplicated / split at its midpoint, every adjacent same-direction pair merged. Application phase: three messages each way and receivers that carry on after a receive error. Oracle: fault applied and any application message accepted by either side => violation. Non-trivial = the fault was applied to a live frame (distinct (shape, direction, frame, fault) by construction).",
		Assume: []string{"frame layout of the cleartext path is value-independent (lengths recorded in the pre-pass; offsets beyond a live frame are counted as skipped)", "session ids / ECDH keys / nonces are random per run: faults are addressed by position, not value"},
	}
	p.Gen = func(tier string, yield func(vlib.Case)) {
		masks := []byte{0x01}
		if tier == "thorough" {
			masks = []byte{0x01, 0x20, 0x80}
		}
		p.Bounds = map[string]any{"substitutes": masks, "shapes": len(c04Shapes)}
		layouts := map[string]any{}
		for _, sh := range c04Shapes {
			sh := sh
			c2s, s2c, err := c04Layout(sh)
			if err != nil {
				yield(vlib.Case{ID: "layout/" + sh.name, Run: func() *vlib.Result {
					r := &vlib.Result{}
					r.Violate("C04/honest-handshake-fails/"+sh.name, "an untampered handshake of this shape does not complete with bound application data (for resumed-noreply the peer is the independent scripted requester, which binds the request it sent as the documented format says): %v", err)
					return r
				}})
				continue
			}
			layouts[sh.name] = map[string]any{"c2s_frame_lengths": c2s, "s2c_frame_lengths": s2c}
			judge := func(flt c04Fault) *vlib.Result {
				res := &vlib.Result{Evals: 1}
				run := c04Exec(sh, &flt)
				r := run.r
				if r.Timeout {
					res.Violate("C04/hang/"+sh.name, "%v", flt)
					return res
				}
				if !run.applied {
					res.Skipped = 1
					res.Outcome("fault-not-applied")
					return res
				}
				res.Nontrivial = 1
				// the property speaks of connections that end up protected: what an endpoint took on a
				// stream that is in the clear (possible only where nobody REQUIRES encryption) is not its subject
				srvProt := r.S.Stream != nil && r.S.Stream.IsEncrypted()
				cliProt := sh.noReply || (r.C.Stream != nil && r.C.Stream.IsEncrypted())
				accepted := (len(r.S.AppGot) > 0 && srvProt) || (len(r.C.AppGot) > 0 && cliProt)
				if (len(r.S.AppGot) > 0 && !srvProt) || (len(r.C.AppGot) > 0 && !cliProt) {
					res.Outcome("accepted-on-a-cleartext-connection(not-C04)")
				}
				hsOK := r.C.Err == nil && r.S.Err == nil
				// A duplicate of the LAST cleartext frame of a direction lands after that
				// direction's negotiation bytes: both endpoints consumed identical
				// pre-encryption streams, and the stray copy is an injection into the
				// protected phase (C02's domain). Only its receiver is then constrained:
				// it must not accept anything in that direction.
				nClear := len(c2s)
				if flt.dir == "s2c" {
					nClear = len(s2c)
				}
				if flt.kind == "dup" && flt.frame+1 >= nClear {
					// (the receiver rejects the stray copy and may then go on to the genuine
					// messages: only something OTHER than the genuine messages counts)
					genuine := func(got []byte, word string) bool {
						rest := string(got)
						for i := 1; i <= 3; i++ {
							rest = strings.Replace(rest, fmt.Sprintf("%s-%d;", word, i), "", 1)
						}
						return rest == "" || rest == "ping-from-requester"
					}
					accepted = (flt.dir == "s2c" && !genuine(r.C.AppGot, "pong")) || (flt.dir == "c2s" && !genuine(r.S.AppGot, "ping"))
					if !accepted {
						res.Outcome("post-negotiation-injection-rejected-by-receiver")
						return res
					}
				}
				if accepted {
					who := "server accepted the client's message"
					if len(r.C.AppGot) > 0 {
						who += " and client accepted the server's reply"
					}
					res.Violate(fmt.Sprintf("C04/tampered-negotiation-accepted/%s/%s/%s", sh.name, flt.dir, flt.kind), "shape %s fault %v: the cleartext handshake was altered in transit, both handshakes returned %v/%v and application data was still accepted (%s)", sh.name, flt, errStr(r.C.Err), errStr(r.S.Err), who)
					res.Outcome("finding-accepted")
					return res
				}
				switch {
				case r.C.Panic != "" || r.S.Panic != "":
					res.Outcome("safe-fail-endpoint-panic(C13)")
				case hsOK:
					res.Outcome("handshake-ok-first-protected-frame-rejected")
				case r.Stuck:
					res.Outcome("safe-fail-stuck")
				default:
					res.Outcome("safe-fail-handshake-error")
				}
				res.Sample = fmt.Sprintf("%s %v", sh.name, flt)
				return res
			}
			for di, lens := range [][]int{c2s, s2c} {
				dir := []string{"c2s", "s2c"}[di]
				for fi, l := range lens {
					for off := 0; off < l+2; off++ {
						if sh.pad > 0 && l > 1000 && off > 40 && off%37 != 0 && off < l-40 {
							continue // inside the padding of a large ad: every 37th offset
						}
						ms := masks
						if off == 0 {
							// the end-of-message flag: every other value a receiver might still read
							// as "end" (1 -> 2, 3, 10, 11, 255) or as "more" (1 -> 0)
							ms = []byte{0x01, 0x03, 0x02, 0x0b, 0x0a, 0xfe, 0x80}
						}
						for _, m := range ms {
							flt := c04Fault{dir: dir, frame: fi, kind: "flip", off: off, mask: m}
							yield(vlib.Case{ID: sh.name + "/" + flt.String(), Run: func() *vlib.Result { return judge(flt) }})
						}
					}
					for _, k := range []string{"ins0", "ins1", "drop", "dup", "split", "merge"} {
						flt := c04Fault{dir: dir, frame: fi, kind: k}
						yield(vlib.Case{ID: sh.name + "/" + flt.String(), Run: func() *vlib.Result { return judge(flt) }})
					}
				}
			}
		}
		p.SetExtra("cleartext_layouts", layouts)
	}
	return p
}
