package props

// C09 — private attributes are never serialised unless asked for, nor sent in
// the clear. E-ENUM over (private-name case variant) x (64 option sets) x
// (4 whitelist shapes) x (6 peer versions) x (3 stream states); every private
// attribute carries a unique canary; the emitted bytes and their independent
// decryption are searched for names and canaries, and the real receiver in the
// same state must rebuild the filtered ad.

import (
	"bytes"
	"context"
	"fmt"
	"strings"

	"github.com/PelicanPlatform/classad/classad"
	"github.com/bbockelm/cedar/message"
	"github.com/bbockelm/cedar/stream"

	"verif/netsim"
	"verif/refcodec"
	"verif/vlib"
)

func caseVariants(name string, all bool) []string {
	letters := []int{}
	for i, c := range name {
		if (c >= 'a' && c <= 'z') || (c >= 'A' && c <= 'Z') {
			letters = append(letters, i)
		}
	}
	flip := func(b []byte, i int) {
		if b[i] >= 'a' && b[i] <= 'z' {
			b[i] -= 32
		} else if b[i] >= 'A' && b[i] <= 'Z' {
			b[i] += 32
		}
	}
	low := strings.ToLower(name)
	seen := map[string]bool{}
	var out []string
	add := func(s string) {
		if !seen[s] {
			seen[s] = true
			out = append(out, s)
		}
	}
	if all {
		for m := 0; m < 1<<uint(len(letters)); m++ {
			b := []byte(low)
			for k, i := range letters {
				if m&(1<<uint(k)) != 0 {
					flip(b, i)
				}
			}
			add(string(b))
		}
		return out
	}
	add(low)
	add(strings.ToUpper(name))
	add(name)
	for _, i := range letters {
		b := []byte(low)
		flip(b, i)
		add(string(b))
		b = []byte(strings.ToUpper(name))
		flip(b, i)
		add(string(b))
	}
	return out
}

func c09Names() (priv []string, isV2 map[string]bool) {
	isV2 = map[string]bool{}
	for _, n := range []string{"Capability", "ChildClaimIds", "ClaimId", "ClaimIdList", "ClaimIds", "TransferKey"} {
		priv = append(priv, caseVariants(n, len(n) <= 8)...)
	}
	for _, pv := range caseVariants("_condor_priv", false) {
		for _, suf := range []string{"", "X", "_key"} {
			priv = append(priv, pv+suf)
			isV2[pv+suf] = true
		}
	}
	return
}

type c09State int

const (
	stNoKey c09State = iota
	stEncrypting
	stKeyedClear
	// keyed, an earlier secret (PutSecret / GetSecret) went over the then-encrypting
	// stream, and normal encryption was switched off afterwards
	stKeyedClearAfterSecret
)

// keyedClear: the stream holds a key but is not currently encrypting.
func (s c09State) keyedClear() bool { return s == stKeyedClear || s == stKeyedClearAfterSecret }

func (s c09State) String() string {
	return [...]string{"nokey", "encrypting", "keyed-not-encrypting", "keyed-not-encrypting-after-a-secret"}[s]
}

func c09Stream(st c09State, b *netsim.Buf) *stream.Stream {
	s := stream.NewStream(b)
	if st != stNoKey {
		_ = s.SetSymmetricKey(testKey)
	}
	if st == stKeyedClearAfterSecret {
		// sender (nothing to read yet): the secret goes out first and stays at the head of the
		// wire; receiver (wire preloaded): it reads that secret first
		ctx := context.Background()
		if len(b.R) == 0 {
			_ = s.PutSecret(ctx, "an-earlier-secret")
		} else {
			_, _ = s.GetSecret(ctx)
		}
	}
	if st.keyedClear() {
		s.SetCryptoMode(false)
	}
	return s
}

// c09Views returns the cleartext view (bodies of frames that do not open under
// the key) and the full decrypted view of the wire.
func c09Views(wire []byte, keyed bool) (clear, all []byte, protected int) {
	frames, _ := refcodec.ParseFrames(wire)
	var dir *refcodec.Dir
	if keyed {
		dir, _ = refcodec.NewDir(testKey, [32]byte{}, [32]byte{})
	}
	for _, f := range frames {
		if dir != nil {
			hadIV, iv := dir.HaveIV, dir.BaseIV
			if pt, err := dir.Open(f); err == nil {
				all = append(all, pt...)
				protected++
				continue
			}
			dir.HaveIV, dir.BaseIV = hadIV, iv
		}
		clear = append(clear, f.Header()...)
		clear = append(clear, f.Body...)
		all = append(all, f.Body...)
	}
	return
}

var c09Versions = []*message.HTCondorVersion{nil, {Major: 8, Minor: 9, Patch: 13}, {Major: 9, Minor: 8, Patch: 9}, {Major: 9, Minor: 9, Patch: 0}, {Major: 9, Minor: 9, Patch: 1}, {Major: 10, Minor: 0, Patch: 0}}

// c09VersionGrid: the peer-version cut-off (9.9.0) probed from every side - each
// component below, at and above its cut-off value while the others vary. Used for
// the reserved-prefix names, the only ones the peer version matters for.
func c09VersionGrid() []*message.HTCondorVersion {
	out := []*message.HTCondorVersion{nil}
	for _, ma := range []int{6, 8, 9, 10, 23} {
		for _, mi := range []int{0, 8, 9, 10} {
			for _, pa := range []int{0, 13} {
				out = append(out, &message.HTCondorVersion{Major: ma, Minor: mi, Patch: pa})
			}
		}
	}
	return out
}

func c09RunName(idx int, name string, v2 bool, multiFrame bool, versions []*message.HTCondorVersion) *vlib.Result {
	ctx := context.Background()
	res := &vlib.Result{}
	canary := fmt.Sprintf("CANARY%dZQ", idx)
	lowName := strings.ToLower(name)
	otherCase := strings.ToUpper(name)
	if otherCase == name {
		otherCase = lowName
	}
	mkAd := func() *classad.ClassAd {
		ad := classad.New()
		_ = ad.Set("Pub", "pubvalue")
		_ = ad.Set("claimidx", "nm1")
		_ = ad.Set("_condor_pri", "nm2")
		_ = ad.Set("xcapability", "nm3")
		_ = ad.Set(name, canary)
		_ = ad.Set("MyType", "Machine")
		if multiFrame {
			_ = ad.Set("Pad", strings.Repeat("p", 40000))
		}
		return ad
	}
	wls := [][]string{nil, {"Pub", "MyType"}, {"Pub", name}, {"Pub", otherCase}}
	for opts := 0; opts < 64; opts++ {
		for wi, wl := range wls {
			for vi, ver := range versions {
				typelessBaselineOK := false
				for st := stNoKey; st <= stKeyedClearAfterSecret; st++ {
					res.Evals++
					res.Nontrivial++
					cfg := &message.PutClassAdConfig{Options: message.PutClassAdOptions(opts), Whitelist: wl, PeerVersion: ver}
					sb := &netsim.Buf{}
					snd := c09Stream(st, sb)
					m := message.NewMessageForStream(snd)
					err := m.PutClassAdWithOptions(ctx, mkAd(), cfg)
					if err == nil {
						err = m.PutInt(ctx, 424242)
					}
					if err == nil {
						err = m.FinishMessage(ctx)
					}
					id := fmt.Sprintf("name=%s opts=%06b wl=%d ver=%d state=%v", name, opts, wi, vi, st)
					if err != nil {
						res.Violate("C09/send-error", "%s: %v", id, err)
						continue
					}
					include := opts&int(message.PutClassAdIncludePrivate) != 0 && opts&int(message.PutClassAdNoPrivate) == 0
					verOK := ver == nil || ver.Major > 9 || (ver.Major == 9 && (ver.Minor > 9 || ver.Minor == 9 && ver.Patch >= 0))
					maySend := include && (!v2 || verOK)
					clear, all, nprot := c09Views(sb.W, st != stNoKey)
					lowAll := bytes.ToLower(all)
					hasName := containsAttr(lowAll, lowName)
					hasCanary := bytes.Contains(all, []byte(canary))
					kind := "v1"
					if v2 {
						kind = "v2"
					}
					if !maySend && (hasName || hasCanary) {
						why := "no opt-in"
						if include {
							why = "peer too old for reserved-prefix attributes"
						}
						res.Violate(fmt.Sprintf("C09/leak/%s/wl=%d/%v", kind, wi, st), "%s: private attribute on the wire (%s): name=%v value=%v", id, why, hasName, hasCanary)
						res.Outcome("finding-leak")
						continue
					}
					if st == stEncrypting && nprot == 0 {
						res.Violate("C09/not-encrypted", "%s: encrypting stream emitted no protected frame", id)
					}
					if hasCanary && st.keyedClear() {
						if bytes.Contains(clear, []byte(canary)) || containsAttr(bytes.ToLower(clear), lowName) {
							res.Violate(fmt.Sprintf("C09/secret-in-clear/%s", kind), "%s: keyed stream sent the private attribute outside an encrypted frame", id)
							res.Outcome("finding-clear")
							continue
						}
					}
					if st == stEncrypting && bytes.Contains(sb.W, []byte(canary)) {
						res.Violate("C09/cleartext-on-encrypting", "%s", id)
					}
					if opts&int(message.PutClassAdNoTypes) != 0 {
						// an ad without type strings can only be received as the LAST thing of its message
						// (the reader takes "message ended" for "no types"): send it again without the
						// sentinel - the private attribute is then the last content before end-of-message
						sb2 := &netsim.Buf{}
						m2 := message.NewMessageForStream(c09Stream(st, sb2))
						err := m2.PutClassAdWithOptions(ctx, mkAd(), cfg)
						if err == nil {
							err = m2.FinishMessage(ctx)
						}
						if err != nil {
							res.Violate("C09/send-error", "%s (ad ends the message): %v", id, err)
							continue
						}
						ad, err := message.NewMessageFromStream(c09Stream(st, &netsim.Buf{R: sb2.W})).GetClassAd(ctx)
						if st == stNoKey {
							typelessBaselineOK = err == nil
						}
						if err != nil {
							// the library has no reader for type-less ads as such; what is demanded is that a
							// stream holding a key but not encrypting receives whatever a stream with no key does
							if st.keyedClear() && typelessBaselineOK {
								res.Violate(fmt.Sprintf("C09/receiver-error/%v", st), "%s: a stream without a key receives this type-less ad, the keyed non-encrypting stream fails: %v", id, err)
							} else {
								res.Outcome("no-types-unreceivable-in-this-state")
							}
							continue
						}
						gotPriv, havePriv := ad.EvaluateAttrString(name)
						if havePriv != hasCanary || (havePriv && gotPriv != canary) {
							res.Violate(fmt.Sprintf("C09/receiver-mismatch/%v", st), "%s: type-less ad: wire carries private=%v, receiver rebuilt private=%v (%q)", id, hasCanary, havePriv, gotPriv)
						}
						if v, ok := ad.EvaluateAttrString("Pub"); !ok || v != "pubvalue" {
							res.Violate(fmt.Sprintf("C09/public-lost/wl=%d", wi), "%s: type-less ad: a public attribute did not arrive", id)
						}
						res.Outcome("no-types-ad-ends-message")
						continue
					}
					// the real receiver in the same state rebuilds the filtered ad
					rb := &netsim.Buf{R: sb.W}
					rcv := c09Stream(st, rb)
					rm := message.NewMessageFromStream(rcv)
					ad, err := rm.GetClassAd(ctx)
					if err != nil {
						res.Violate(fmt.Sprintf("C09/receiver-error/%v", st), "%s: receiver failed: %v", id, err)
						continue
					}
					if s, err := rm.GetInt(ctx); err != nil || s != 424242 {
						res.Violate(fmt.Sprintf("C09/receiver-desync/%v", st), "%s: sentinel after the ad read as %d (%v)", id, s, err)
						continue
					}
					gotPriv, havePriv := ad.EvaluateAttrString(name)
					if havePriv != hasCanary || (havePriv && gotPriv != canary) {
						res.Violate(fmt.Sprintf("C09/receiver-mismatch/%v", st), "%s: wire carries private=%v, receiver rebuilt private=%v (%q)", id, hasCanary, havePriv, gotPriv)
					}
					if wl == nil && maySend && !havePriv {
						res.Violate(fmt.Sprintf("C09/optin-lost/%s/%v", kind, st), "%s: caller opted in, no whitelist, but the private attribute did not arrive", id)
					}
					pubExpected := true
					for _, nm := range []string{"Pub", "claimidx", "_condor_pri", "xcapability"} {
						if wl != nil && nm != "Pub" {
							continue
						}
						if v, ok := ad.EvaluateAttrString(nm); !ok || v == "" {
							pubExpected = false
						}
					}
					if !pubExpected {
						res.Violate(fmt.Sprintf("C09/public-lost/wl=%d", wi), "%s: a public attribute did not arrive", id)
					}
					switch {
					case hasCanary && st.keyedClear():
						res.Outcome("sent-sealed-secret-frame")
					case hasCanary && st == stNoKey:
						res.Outcome("sent-cleartext-nokey-optin")
					case hasCanary:
						res.Outcome("sent-encrypted")
					default:
						res.Outcome("withheld")
					}
				}
			}
		}
	}
	res.Sample = map[string]any{"name": name, "v2": v2, "multi_frame": multiFrame, "combos": res.Evals}
	return res
}

// containsAttr reports whether "name =" occurs in b at an attribute-name boundary.
func containsAttr(b []byte, lowName string) bool {
	pat := []byte(lowName + " =")
	for off := 0; ; {
		i := bytes.Index(b[off:], pat)
		if i < 0 {
			return false
		}
		i += off
		if i == 0 {
			return true
		}
		c := b[i-1]
		if !(c == '_' || c >= 'a' && c <= 'z' || c >= '0' && c <= '9') {
			return true
		}
		off = i + 1
	}
}

func C09Plan() *vlib.Plan {
	p := &vlib.Plan{
		Property: "C09", Level: "exploration",
		Rule:   "E-ENUM full product: every case variant of the 6 fixed private names (all 2^n variants for names <= 8 letters, lower/upper/single-letter flips otherwise) and of the _condor_priv prefix x suffixes {'',X,_key}, x all 64 option-bit sets x 4 whitelist shapes (none, public only, naming the private name, naming it in another case) x peer versions (6 fixed; for reserved-prefix names a 41-point grid major {6,8,9,10,23} x minor {0,8,9,10} x patch {0,13} + none) x 4 stream states (no key; keyed and encrypting; keyed but not encrypting; the same after an earlier PutSecret/GetSecret exchange); ad also holds near-miss public names. Oracle: independent search of wire bytes and of their reference decryption for the private name and a unique canary; real receiver in the same state must rebuild the filtered ad and stay in sync (sentinel). Plus the size-bounded receiver (5 budgets) on ads with the private attribute first / in the middle / last x 3 value lengths in every stream state: refuses for size or rebuilds what the unbounded receiver rebuilds. Plus private values whose serialised length runs over 1 MiB-72 .. 1 MiB+40 (and around 2 MiB) in every stream state, with canaries at both ends of the value. Non-trivial = every combo (each serialises an ad holding a private attribute).",
		Assume: []string{"reference decryption by refcodec; canary strings are unique 10+ character tokens"},
	}
	p.Gen = func(tier string, yield func(vlib.Case)) {
		names, v2 := c09Names()
		vers := c09Versions
		if tier != "thorough" {
			vers = []*message.HTCondorVersion{nil, c09Versions[2], c09Versions[3], c09Versions[5]}
		}
		p.Bounds = map[string]any{"private_name_variants": len(names), "combos_per_name": 64 * 4 * len(vers) * 3}
		grid := c09VersionGrid()
		for i, n := range names {
			i, n := i, n
			vs := vers
			if v2[n] && (tier == "thorough" || i%3 == 0) {
				vs = grid // reserved-prefix names: the whole version grid (quick: every third variant)
			}
			yield(vlib.Case{ID: "name/" + n, Run: func() *vlib.Result { return c09RunName(i, n, v2[n], false, vs) }})
		}
		yield(vlib.Case{ID: "bounded-receiver", Run: func() *vlib.Result {
			res := &vlib.Result{}
			for st := stNoKey; st <= stKeyedClearAfterSecret; st++ {
				for _, n := range []string{"ClaimId", "CAPABILITY", "_condor_priv_key", "claimid"} {
					c09Bounded(res, n, st)
				}
			}
			return res
		}})
		// a private value around the 1 MiB frame limit, in every stream state
		for st := stNoKey; st <= stKeyedClearAfterSecret; st++ {
			st := st
			yield(vlib.Case{ID: fmt.Sprintf("huge-private-value/%v", st), Run: func() *vlib.Result {
				res := &vlib.Result{}
				const MiB = 1 << 20
				for d := -72; d <= 40; d++ {
					if tier != "thorough" && d%2 != 0 && (d < -40 || d > 8) {
						continue
					}
					c09HugeSecret(res, "ClaimId", st, MiB+d)
				}
				for _, n := range []int{MiB - 4096, 2*MiB - 33, 2*MiB - 1, 2 * MiB, 2*MiB + 17} {
					c09HugeSecret(res, "_condor_priv_key", st, n)
				}
				return res
			}})
		}
		if tier == "thorough" {
			for i, n := range names {
				if i%7 != 0 {
					continue
				}
				i, n := i, n
				yield(vlib.Case{ID: "multiframe/" + n, Run: func() *vlib.Result { return c09RunName(i, n, v2[n], true, vers) }})
			}
		}
	}
	return p
}

// c09HugeSecret: a private attribute whose serialised form ("Name = \"value\"" + NUL) is `total`
// bytes long - around the 1 MiB frame limit, where the encoder splits the value over several
// frames - sent on a keyed stream in state st with the opt-in. The value starts and ends with
// a canary: neither may show outside an encrypted frame, and the receiver rebuilds the value.
func c09HugeSecret(res *vlib.Result, name string, st c09State, total int) {
	ctx := context.Background()
	res.Evals++
	res.Nontrivial++
	head, tail := "HEADCANARY7Q", "TAILCANARY7Q"
	overhead := len(name) + len(" = \"\"") + 1
	pad := total - overhead - len(head) - len(tail)
	if pad < 0 {
		return
	}
	val := head + strings.Repeat("s", pad) + tail
	ad := classad.New()
	_ = ad.Set("Pub", "pubvalue")
	_ = ad.Set(name, val)
	_ = ad.Set("After", "x")
	_ = ad.Set("MyType", "Machine")
	sb := &netsim.Buf{}
	m := message.NewMessageForStream(c09Stream(st, sb))
	err := m.PutClassAdWithOptions(ctx, ad, &message.PutClassAdConfig{Options: message.PutClassAdIncludePrivate})
	if err == nil {
		err = m.PutInt(ctx, 424242)
	}
	if err == nil {
		err = m.FinishMessage(ctx)
	}
	id := fmt.Sprintf("name=%s serialised-length=%d state=%v", name, total, st)
	if err != nil {
		res.Violate("C09/send-error", "%s: %v", id, err)
		return
	}
	clear, _, _ := c09Views(sb.W, st != stNoKey)
	if st != stNoKey {
		for _, c := range []string{head, tail} {
			if bytes.Contains(clear, []byte(c)) || (st == stEncrypting && bytes.Contains(sb.W, []byte(c))) {
				res.Violate("C09/secret-in-clear/huge-value", "%s: part of the private value (%s) is on the wire outside an encrypted frame", id, c)
				return
			}
		}
		// no long run of the value's filler in clear either
		if bytes.Contains(clear, []byte(strings.Repeat("s", 24))) {
			res.Violate("C09/secret-in-clear/huge-value", "%s: a stretch of the private value is on the wire outside an encrypted frame", id)
			return
		}
	}
	got, err := message.NewMessageFromStream(c09Stream(st, &netsim.Buf{R: sb.W})).GetClassAd(ctx)
	if err != nil {
		res.Violate(fmt.Sprintf("C09/receiver-error/%v", st), "%s: receiver failed: %v", id, err)
		return
	}
	if v, ok := got.EvaluateAttrString(name); !ok || v != val {
		res.Violate(fmt.Sprintf("C09/receiver-mismatch/%v", st), "%s: the private value did not arrive intact (%d bytes of %d)", id, len(v), len(val))
	}
	res.Outcome("huge-secret-ok")
}

// c09Bounded: the size-bounded receiver (GetClassAdWithMaxSize, the one handshakes and CCB use)
// on ads whose private attribute comes FIRST, in the middle or last, short or long, in every
// stream state, with budgets from generous to tight: it either refuses for size, or rebuilds the
// ad exactly as the unbounded receiver does.
func c09Bounded(res *vlib.Result, name string, st c09State) {
	ctx := context.Background()
	for _, pos := range []string{"first", "middle", "last"} {
		for _, vlen := range []int{1, 40, 700} {
			ad := classad.New()
			val := "BCANARY" + strings.Repeat("v", vlen)
			if pos == "first" {
				_ = ad.Set(name, val)
			}
			_ = ad.Set("Pub", "pubvalue")
			if pos == "middle" {
				_ = ad.Set(name, val)
			}
			_ = ad.Set("Other", 42)
			if pos == "last" {
				_ = ad.Set(name, val)
			}
			_ = ad.Set("MyType", "Machine")
			sb := &netsim.Buf{}
			m := message.NewMessageForStream(c09Stream(st, sb))
			err := m.PutClassAdWithOptions(ctx, ad, &message.PutClassAdConfig{Options: message.PutClassAdIncludePrivate})
			if err == nil {
				err = m.PutInt(ctx, 424242)
			}
			if err == nil {
				err = m.FinishMessage(ctx)
			}
			id := fmt.Sprintf("name=%s position=%s value-length=%d state=%v", name, pos, len(val), st)
			if err != nil {
				res.Violate("C09/send-error", "%s: %v", id, err)
				continue
			}
			ref, err := message.NewMessageFromStream(c09Stream(st, &netsim.Buf{R: sb.W})).GetClassAd(ctx)
			if err != nil {
				res.Violate(fmt.Sprintf("C09/receiver-error/%v", st), "%s: %v", id, err)
				continue
			}
			for _, budget := range []int{1 << 20, 65536, 4096, len(val) + 200, len(val) / 2} {
				res.Evals++
				res.Nontrivial++
				rm := message.NewMessageFromStream(c09Stream(st, &netsim.Buf{R: sb.W}))
				got, err := rm.GetClassAdWithMaxSize(ctx, budget)
				if err != nil {
					if budget >= len(val)+200 {
						res.Violate(fmt.Sprintf("C09/bounded-receiver-error/%v", st), "%s: GetClassAdWithMaxSize(%d) fails on an ad the unbounded receiver rebuilds: %v", id, budget, err)
					}
					continue
				}
				if s, e2 := rm.GetInt(ctx); e2 != nil || s != 424242 {
					res.Violate(fmt.Sprintf("C09/receiver-desync/%v", st), "%s: bounded receiver (budget %d): sentinel %d %v", id, budget, s, e2)
					continue
				}
				for _, a := range []string{name, "Pub"} {
					g, _ := got.EvaluateAttrString(a)
					w, _ := ref.EvaluateAttrString(a)
					if g != w {
						res.Violate(fmt.Sprintf("C09/receiver-mismatch/%v", st), "%s: bounded receiver (budget %d) rebuilt %s differently from the unbounded one", id, budget, a)
					}
				}
			}
		}
	}
	res.Outcome("bounded-receiver-ok")
}
