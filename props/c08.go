package props

// C08 — ClassAds survive the wire; decoder shortcuts agree with the full parser.
// (b) decode side: every string <= L over a 17-symbol literal alphabet is put on
// the wire as the value text of one attribute (frames built by the reference)
// and read by the real GetClassAd; the result is compared with the full parser.
// (a) encode side: every expression of a bounded grammar is sent with the real
// PutClassAd and read by the three receivers (parse / raw text / skip), in three
// stream states, single- and multi-frame.

import (
	"bytes"
	"context"
	"fmt"
	"math"
	"math/big"
	"strings"

	"github.com/PelicanPlatform/classad/classad"
	"github.com/bbockelm/cedar/message"

	"verif/netsim"
	"verif/refcodec"
	"verif/vlib"
)

var c08Sigma = []string{"0", "1", "9", "-", "+", ".", "e", "E", "x", "p", "_", `"`, `\`, "a", "t", "T", " "}

func sameValue(a, b classad.Value) bool {
	if a.Type() != b.Type() {
		return false
	}
	if a.IsReal() {
		x, _ := a.RealValue()
		y, _ := b.RealValue()
		return x == y || (math.IsNaN(x) && math.IsNaN(y))
	}
	return a.String() == b.String()
}

// loneOldString: independent recogniser of an old-style quoted string literal:
// quotes at both ends, every interior quote preceded by a backslash; the only
// escape is \" (a backslash is otherwise literal).
func loneOldString(t string) (string, bool) {
	t = strings.TrimSpace(t)
	if len(t) < 2 || t[0] != '"' || t[len(t)-1] != '"' {
		return "", false
	}
	in := t[1 : len(t)-1]
	var out []byte
	for i := 0; i < len(in); i++ {
		if in[i] == '\\' && i+1 < len(in) && in[i+1] == '"' {
			out = append(out, '"')
			i++
			continue
		}
		if in[i] == '"' {
			return "", false
		}
		out = append(out, in[i])
	}
	return string(out), true
}

func valueClass(text string) string {
	t := strings.TrimSpace(text)
	switch {
	case t == "":
		return "empty"
	case t[0] == '"':
		return "quoted"
	case t[0] == '-' || (t[0] >= '0' && t[0] <= '9'):
		if strings.ContainsAny(t, "xX") {
			return "number-hex"
		}
		if strings.Contains(t, "_") {
			return "number-underscore"
		}
		if strings.HasSuffix(t, ".") || strings.Contains(t, ".e") || strings.Contains(t, ".E") {
			return "number-trailing-dot"
		}
		if len(strings.TrimLeft(t, "-")) > 1 && strings.TrimLeft(t, "-")[0] == '0' && !strings.HasPrefix(strings.TrimLeft(t, "-"), "0.") {
			return "number-leading-zero"
		}
		return "number"
	}
	return "other"
}

// c08DecodeOne sends `A = text` (reference-built wire) to the real decoder and
// compares with the full parser.
func c08DecodeOne(res *vlib.Result, text string) {
	ctx := context.Background()
	res.Evals++
	pl := refcodec.EncInt(1)
	pl = append(pl, refcodec.EncString("A = "+text, false)...)
	pl = append(pl, 0, 0) // MyType, TargetType empty
	pl = append(pl, refcodec.EncInt(777)...)
	rb := &netsim.Buf{R: refcodec.MkFrame(1, pl)}
	m := message.NewMessageFromStream(newStreamOn(rb))
	ad, derr := m.GetClassAd(ctx)
	if derr == nil {
		if s, err := m.GetInt(ctx); err != nil || s != 777 {
			res.Violate("C08/decode/desync", "value text %q: sentinel after the ad unreadable", text)
			return
		}
	}
	ref, perr := classad.ParseExpr(text)
	vc := valueClass(text)
	if perr != nil {
		if old, ok := loneOldString(text); ok {
			if derr != nil {
				res.Violate("C08/decode/old-string-rejected", "value text %q is a lone old-style string but the decoder rejected it: %v", text, derr)
				return
			}
			got, ok2 := ad.EvaluateAttrString("A")
			if !ok2 || got != old {
				res.Violate("C08/decode/old-string-wrong", "value text %q: old-style string decodes to %q, decoder produced %q", text, old, got)
			}
			res.Nontrivial++
			res.Outcome("old-string")
			return
		}
		if derr == nil {
			e, _ := ad.Lookup("A")
			res.Violate("C08/decode/accepts-what-parser-rejects/"+vc, "value text %q: full parser rejects it (%v) but the decoder produced %s", text, perr, e.String())
			res.Outcome("finding-accept")
			return
		}
		res.Outcome("both-reject")
		return
	}
	res.Nontrivial++
	if derr != nil {
		res.Violate("C08/decode/rejects-what-parser-accepts/"+vc, "value text %q: full parser accepts it but the decoder failed: %v", text, derr)
		res.Outcome("finding-reject")
		return
	}
	got, ok := ad.Lookup("A")
	if !ok {
		res.Violate("C08/decode/attr-missing", "value text %q: attribute missing after decode", text)
		return
	}
	if got.Equal(ref) {
		res.Outcome("equal-structure")
		return
	}
	gv, rv := got.Eval(nil), ref.Eval(nil)
	if sameValue(gv, rv) && !rv.IsUndefined() && !rv.IsError() {
		res.Outcome("equal-value")
		return
	}
	res.Violate("C08/decode/differs-from-parser/"+vc, "value text %q: full parser gives %s (= %s), decoder produced %s (= %s)", text, ref.String(), rv.String(), got.String(), gv.String())
	res.Outcome("finding-differs")
}

// ---- encode side ----

func c08Exprs(depth int, tier string) []string {
	strs := []string{`""`}
	syms := []string{"a", `\"`, `\\`, `\n`, `\t`, "é", " "}
	for _, x := range syms {
		strs = append(strs, `"`+x+`"`)
		for _, y := range syms {
			strs = append(strs, `"`+x+y+`"`)
		}
	}
	lits := []string{"0", "1", "-1", "9223372036854775807", "-9223372036854775808", "0.0", "-0.0", "1.5", "1.0E+300", "2.5E-300", "true", "false", "TRUE", "False", "undefined", "error", "x", "Other.y", "MY.z"}
	lits = append(lits, strs...)
	cur := lits
	all := append([]string{}, lits...)
	small := []string{"1", "x", `"a\"b"`, "2.5", "true"}
	for d := 1; d <= depth; d++ {
		var next []string
		base := cur
		if d > 1 || tier != "thorough" {
			base = small
			if d > 1 {
				base = cur
				if len(base) > 60 {
					base = base[:60]
				}
			}
		}
		for _, a := range base {
			next = append(next, "-("+a+")", "!("+a+")", "strcat("+a+", \"z\")", "{"+a+", 2}", "[ n = "+a+" ]", "("+a+") ? 1 : 2")
			for _, b := range small {
				for _, op := range []string{"+", "&&", "==", "=?="} {
					next = append(next, a+" "+op+" "+b)
				}
			}
		}
		all = append(all, next...)
		cur = next
	}
	return all
}

type c08Recv struct {
	name string
}

func c08EncodeOne(res *vlib.Result, exprs []string, st c09State, pad bool, withTypes bool, private bool) {
	c08EncodeNamed(res, nil, exprs, st, pad, withTypes, private, false)
}

// c08AttrNames: attribute names that resemble pieces of the wire layout (the
// in-band secret marker, the type-name attributes) or are unusual.
var c08AttrNames = []string{"ServerTime", "ZKM", "ZKMode", "ZKM_", "ZKMZKM", "zkm", "ZK", "Z", "MyTypeX", "TargetTypes", "My", "_", "_a1", "A", strings.Repeat("LongName", 40)}

func c08EncodeNamed(res *vlib.Result, attrNames []string, exprs []string, st c09State, pad bool, withTypes bool, private bool, serverTime bool) {
	ctx := context.Background()
	res.Evals++
	ad := classad.New()
	var names []string
	for i, e := range exprs {
		pe, err := classad.ParseExpr(e)
		if err != nil {
			res.Skipped++
			res.Outcome("generator-text-unparseable")
			return
		}
		n := fmt.Sprintf("Attr%d", i)
		if i < len(attrNames) {
			n = attrNames[i]
		}
		ad.InsertExpr(n, pe)
		names = append(names, n)
	}
	privFirst := len(attrNames) > 0 && strings.HasPrefix(attrNames[0], "PrivThenPad")
	if private && privFirst {
		// the private attribute directly before a long ordinary one
		_ = ad.Set("ClaimId", "<10.0.0.1:9618>#1700000000#1#secretcookie")
		names = append(names, "ClaimId")
	}
	if pad {
		n := 20000
		if len(attrNames) > 0 && attrNames[0] == "HugePadFirst" {
			n = 1<<20 + 5000 // a single attribute longer than the largest frame
		}
		if privFirst {
			fmt.Sscanf(attrNames[0], "PrivThenPad%d", &n)
		}
		_ = ad.Set("Pad", strings.Repeat("q", n))
		names = append(names, "Pad")
	}
	if private && !privFirst {
		_ = ad.Set("ClaimId", "<10.0.0.1:9618>#1700000000#1#secretcookie")
		names = append(names, "ClaimId")
	}
	if withTypes {
		_ = ad.Set("MyType", "Machine")
		_ = ad.Set("TargetType", "Job")
	}
	sb := &netsim.Buf{}
	snd := c09Stream(st, sb)
	m := message.NewMessageForStream(snd)
	var cfg *message.PutClassAdConfig
	if private {
		cfg = &message.PutClassAdConfig{Options: message.PutClassAdIncludePrivate}
	}
	if serverTime {
		// the sender adds a ServerTime attribute of its own (the ad may already hold one)
		if cfg == nil {
			cfg = &message.PutClassAdConfig{}
		}
		cfg.Options |= message.PutClassAdServerTime
	}
	if err := m.PutClassAdWithOptions(ctx, ad, cfg); err != nil {
		res.Violate("C08/encode/put-error", "ad %v: %v", exprs, err)
		return
	}
	_ = m.PutInt(ctx, 31337)
	if err := m.FinishMessage(ctx); err != nil {
		res.Violate("C08/encode/put-error", "ad %v: %v", exprs, err)
		return
	}
	res.Nontrivial++
	// reference expectation: the parser's reading of the text the sender rendered
	type exp struct {
		ref *classad.Expr
		ok  bool
	}
	want := map[string]exp{}
	for _, n := range names {
		e, _ := ad.Lookup(n)
		r, err := classad.ParseExpr(e.String())
		want[n] = exp{r, err == nil}
	}
	key := func(k string) string {
		if private {
			return fmt.Sprintf("C08/encode-private/%s/%v", k, st)
		}
		return fmt.Sprintf("C08/encode/%s/%v", k, st)
	}
	for _, rk := range []string{"parse", "raw", "skip"} {
		rb := &netsim.Buf{R: append([]byte(nil), sb.W...)}
		rm := message.NewMessageFromStream(c09Stream(st, rb))
		var got *classad.ClassAd
		var err error
		switch rk {
		case "parse":
			got, err = rm.GetClassAd(ctx)
		case "raw":
			var txt string
			txt, err = rm.GetClassAdRaw(ctx)
			if err == nil {
				got, err = classad.ParseOld(txt)
				if private && err == nil {
					// String()/ParseOld redact nothing on parse; keep as is
				}
				if err != nil {
					err = fmt.Errorf("raw text does not re-parse: %w", err)
				}
			}
		case "skip":
			err = rm.SkipClassAdRaw(ctx)
		}
		allOK := true
		for _, w := range want {
			allOK = allOK && w.ok
		}
		if rk == "skip" {
			// one verdict for the skipping receiver: it must consume exactly the ad
			s, e2 := 0, error(nil)
			if err == nil {
				s, e2 = rm.GetInt(ctx)
			}
			if allOK && (err != nil || e2 != nil || s != 31337) {
				res.Violate(key("skip-desync"), "ad %v: SkipClassAdRaw did not consume exactly the bytes of the ad (skip err=%v, sentinel=%d %v)", exprs, err, s, e2)
			}
			continue
		}
		if err != nil {
			if allOK {
				res.Violate(key(rk+"-receiver-error"), "ad %v: receiver %s failed: %v", exprs, rk, err)
			} else {
				res.Outcome("rendered-text-rejected-by-parser-and-receiver")
			}
			continue
		}
		if s, e2 := rm.GetInt(ctx); e2 != nil || s != 31337 {
			res.Violate(key(rk+"-bytes-consumed"), "ad %v: receiver %s did not consume exactly the ad (sentinel read %d, %v)", exprs, rk, s, e2)
			continue
		}
		if got == nil {
			continue
		}
		for _, n := range names {
			g, ok := got.Lookup(n)
			w := want[n]
			if !ok {
				res.Violate(key(rk+"-attr-lost"), "ad %v: attribute %s missing at receiver %s", exprs, n, rk)
				continue
			}
			if !w.ok || serverTime && strings.EqualFold(n, "ServerTime") {
				continue
			}
			if g.Equal(w.ref) {
				continue
			}
			gv, rv := g.Eval(nil), w.ref.Eval(nil)
			if sameValue(gv, rv) && !rv.IsUndefined() && !rv.IsError() {
				continue
			}
			se, _ := ad.Lookup(n)
			res.Violate(key(rk+"-value-differs"), "attribute rendered as %q: parser reads %s, receiver %s rebuilt %s", se.String(), w.ref.String(), rk, g.String())
		}
		extra := 0
		for _, a := range got.GetAttributes() {
			if _, ok := want[a]; !ok && a != "MyType" && a != "TargetType" && !(serverTime && strings.EqualFold(a, "ServerTime")) {
				extra++
			}
		}
		if extra > 0 {
			res.Violate(key(rk+"-extra-attrs"), "ad %v: receiver %s has %d extra attributes: %v", exprs, rk, extra, got.GetAttributes())
		}
		if withTypes {
			if mt, _ := got.EvaluateAttrString("MyType"); mt != "Machine" {
				res.Violate(key(rk+"-mytype"), "MyType arrived as %q", mt)
			}
			if tt, _ := got.EvaluateAttrString("TargetType"); tt != "Job" {
				res.Violate(key(rk+"-targettype"), "TargetType arrived as %q", tt)
			}
		}
	}
	// the bounded parsing receiver, for every budget from 1 byte to past the size of the
	// ad: it either refuses, or returns the whole ad (type names included) having
	// consumed exactly the ad's bytes - never a partial ad, never a desync
	if !pad && !private && len(sb.W) < 600 {
		for budget := 1; budget <= len(sb.W)+4; budget++ {
			rb := &netsim.Buf{R: append([]byte(nil), sb.W...)}
			rm := message.NewMessageFromStream(c09Stream(st, rb))
			got, err := rm.GetClassAdWithMaxSize(ctx, budget)
			res.Evals++
			if err != nil {
				continue
			}
			if s, e2 := rm.GetInt(ctx); e2 != nil || s != 31337 {
				res.Violate(key("bounded-bytes-consumed"), "ad %v: GetClassAdWithMaxSize(%d) returned an ad without error but did not consume exactly the ad (sentinel read %d, %v)", exprs, budget, s, e2)
				break
			}
			for _, n := range names {
				if _, ok := got.Lookup(n); !ok {
					res.Violate(key("bounded-attr-lost"), "ad %v: GetClassAdWithMaxSize(%d) succeeded without attribute %s", exprs, budget, n)
				}
			}
			if withTypes {
				mt, _ := got.EvaluateAttrString("MyType")
				tt, _ := got.EvaluateAttrString("TargetType")
				if mt != "Machine" || tt != "Job" {
					res.Violate(key("bounded-types-lost"), "ad %v: GetClassAdWithMaxSize(%d) succeeded with MyType=%q TargetType=%q", exprs, budget, mt, tt)
					break
				}
			}
		}
	}
	res.Outcome("encode-ok")
}

// c08Extremes: decimal numerals at and around 2^31, 2^32, 2^53, 2^63, 2^64,
// 10^18..10^22 and the float64 limits, decorated with signs, blanks, leading
// zeros, fractions and exponents.
func c08Extremes() []string {
	var bases []string
	add := func(b *big.Int) {
		for d := int64(-2); d <= 2; d++ {
			bases = append(bases, new(big.Int).Add(b, big.NewInt(d)).String())
		}
	}
	for _, sh := range []uint{31, 32, 53, 63, 64, 127, 128} {
		add(new(big.Int).Lsh(big.NewInt(1), sh))
	}
	for n := 17; n <= 23; n++ {
		bases = append(bases, strings.Repeat("9", n), "1"+strings.Repeat("0", n-1), "1"+strings.Repeat("0", n-2)+"1")
	}
	bases = append(bases, strings.Repeat("9", 309), "1"+strings.Repeat("0", 308), "17976931348623157"+strings.Repeat("0", 292), "17976931348623159"+strings.Repeat("0", 292))
	var out []string
	for _, b := range bases {
		for _, sign := range []string{"", "-", "+", "- "} {
			for _, suf := range []string{"", ".", ".0", ".5", "e0", "E1", " ", "e-1"} {
				out = append(out, sign+b+suf, " "+sign+b+suf)
			}
			out = append(out, sign+"0"+b)
		}
	}
	for _, r := range []string{"1e308", "1e309", "1.7976931348623157e308", "1.7976931348623159e308", "1.8e308", "4.9e-324", "2e-324", "1e-400", "0." + strings.Repeat("0", 330) + "1", "1e", "1e+", "1.e5", ".5", "-.5", "5.e", "9223372036854775807.0", "9223372036854775808.0", "-9223372036854775808.0", "9.223372036854775807e18", "0.0", "-0", "-0.0", "00", "-00", "0e0", "1E400", "-1e400"} {
		out = append(out, r, " "+r, r+" ", "-"+r)
	}
	return out
}

func C08Plan() *vlib.Plan {
	p := &vlib.Plan{
		Property: "C08", Level: "exploration",
		Rule:   "E-ENUM. Decode side: every string of length <= L over the 17-symbol alphabet {0 1 9 - + . e E x p _ \" \\ a t T space} as the value text of one attribute, framed by the reference and read by the real GetClassAd; oracle = full parser (same structure, or same defined value) / independent old-style lone-string rule / must reject; plus ~3000 decorated numerals at and around 2^31, 2^32, 2^53, 2^63, 2^64, 2^127, 2^128, 10^17..10^22 and the float64 limits. Encode side: every expression of a bounded grammar (literals incl. integer/real extremes, strings with quotes/backslashes/controls/UTF-8, refs, unary, binary, ?:, strcat, lists, nested ads; depth <= D) in ads of 1-2 attributes, with/without type names, single- and multi-frame (incl. one attribute of 1 MiB + 5000 bytes), 3 stream states, through GetClassAd / GetClassAdRaw+ParseOld / SkipClassAdRaw each followed by a sentinel; plus 15 attribute names that resemble wire-layout pieces or sender-added attributes (ServerTime, ZKM, ZKMode, zkm, MyTypeX, ...) x 6 values x {without, with} the sender's ServerTime option through the same three receivers; every non-padded ad is also read by the bounded receiver GetClassAdWithMaxSize(b) for every budget b from 1 to past the ad's size (refuse, or return the whole ad having consumed exactly its bytes). Non-trivial = text accepted by the parser (decode) / ad sent (encode).",
		Assume: []string{"reference = github.com/PelicanPlatform/classad ParseExpr (the 'full parser' of the statement)"},
	}
	p.Gen = func(tier string, yield func(vlib.Case)) {
		L, D := 5, 1
		if tier == "thorough" {
			L, D = 6, 2
		}
		p.Bounds = map[string]any{"decode_max_len": L, "alphabet": c08Sigma, "grammar_depth": D}
		// decode side: one case per 2-symbol prefix (batch), plus the short ones
		yield(vlib.Case{ID: "decode/short", Run: func() *vlib.Result {
			res := &vlib.Result{}
			c08DecodeOne(res, "")
			for _, a := range c08Sigma {
				c08DecodeOne(res, a)
			}
			return res
		}})
		for _, a := range c08Sigma {
			for _, b := range c08Sigma {
				pre := a + b
				yield(vlib.Case{ID: "decode/prefix=" + pre, Run: func() *vlib.Result {
					res := &vlib.Result{}
					var rec func(s string)
					rec = func(s string) {
						c08DecodeOne(res, s)
						if len(s) >= L {
							return
						}
						for _, c := range c08Sigma {
							rec(s + c)
						}
					}
					rec(pre)
					res.Sample = map[string]any{"prefix": pre, "strings": res.Evals}
					return res
				}})
			}
		}
		// a few fixed texts beyond the alphabet (booleans in any case, blanks)
		yield(vlib.Case{ID: "decode/fixed", Run: func() *vlib.Result {
			res := &vlib.Result{}
			for _, t := range []string{"true", "TRUE", "tRuE", "false", "False", " true ", "truex", "T", "undefined", "error", `"a" + "b"`, `"a"b"`, `"\S"`, `"a\"b"`, `"a\\"`, "010", "1.", "0x1.8p1", "1_0.5", "-5", "- 5", "5 ", "1e5", "1.5e+3", "strcat(\"a\",\"b\")", "{1,2}", "[a=1]"} {
				c08DecodeOne(res, t)
			}
			return res
		}})
		// integer and real extremes: numerals around every width boundary, each with
		// every sign / blank / fraction / exponent decoration the shortcut looks at
		yield(vlib.Case{ID: "decode/numeric-extremes", Run: func() *vlib.Result {
			res := &vlib.Result{}
			for _, t := range c08Extremes() {
				c08DecodeOne(res, t)
			}
			res.Sample = map[string]any{"texts": res.Evals}
			return res
		}})
		// encode side: an ad with one attribute longer than the largest frame (1 MiB), in every
		// stream state: the typed layer must split it across frames itself
		for st := stNoKey; st <= stKeyedClear; st++ {
			st := st
			yield(vlib.Case{ID: fmt.Sprintf("encode-huge-attribute/%v", st), Run: func() *vlib.Result {
				res := &vlib.Result{}
				c08EncodeNamed(res, []string{"HugePadFirst"}, []string{"1"}, st, true, true, false, false)
				c08EncodeNamed(res, []string{"HugePadFirst", "Tail"}, []string{`"x"`, "2"}, st, true, false, false, false)
				return res
			}})
		}
		// encode side: a private attribute directly followed by a long ordinary attribute (around the
		// 4 KiB flush threshold and the 16 KiB target frame size), in every stream state
		for st := stNoKey; st <= stKeyedClearAfterSecret; st++ {
			st := st
			yield(vlib.Case{ID: fmt.Sprintf("encode-private-then-long/%v", st), Run: func() *vlib.Result {
				res := &vlib.Result{}
				for _, n := range []int{100, 4080, 4096, 4200, 16300, 16370, 16376, 16384, 16400, 20000, 70000} {
					for _, types := range []bool{true, false} {
						c08EncodeNamed(res, []string{fmt.Sprintf("PrivThenPad%d", n)}, []string{"7"}, st, true, types, true, false)
					}
				}
				return res
			}})
		}
		yield(vlib.Case{ID: "encode-type-names", Run: func() *vlib.Result {
			res := &vlib.Result{}
			for st := stNoKey; st <= stKeyedClear; st++ {
				c08TypeNames(res, st)
			}
			return res
		}})
		// encode side: attribute names that look like wire-layout pieces, each with a few values
		for st := stNoKey; st <= stKeyedClear; st++ {
			st := st
			yield(vlib.Case{ID: fmt.Sprintf("encode-names/%v", st), Run: func() *vlib.Result {
				res := &vlib.Result{}
				vals := []string{"3", `"ZKM"`, `"s"`, "true", "ZKM", "a + 1"}
				for i, n := range c08AttrNames {
					for j, v := range vals {
						for _, sTime := range []bool{false, true} {
							c08EncodeNamed(res, []string{n}, []string{v}, st, false, j%2 == 0, false, sTime)
							c08EncodeNamed(res, []string{n, c08AttrNames[(i+1)%len(c08AttrNames)]}, []string{v, vals[(j+1)%len(vals)]}, st, false, j%2 == 1, i%3 == 0, sTime)
						}
					}
				}
				return res
			}})
		}
		// encode side
		exprs := c08Exprs(D, tier)
		if len(exprs) > 6000 {
			p.Cap(fmt.Sprintf("encode grammar capped at 6000 of %d expressions", len(exprs)))
			exprs = exprs[:6000]
		}
		for st := stNoKey; st <= stKeyedClear; st++ {
			st := st
			for i := 0; i < len(exprs); i += 25 {
				lo, hi := i, min(i+25, len(exprs))
				yield(vlib.Case{ID: fmt.Sprintf("encode/%v/%d-%d", st, lo, hi), Run: func() *vlib.Result {
					res := &vlib.Result{}
					for j := lo; j < hi; j++ {
						c08EncodeOne(res, []string{exprs[j]}, st, false, j%2 == 0, false)
						c08EncodeOne(res, []string{exprs[j], exprs[(j*7+3)%len(exprs)]}, st, j%5 == 0, j%2 == 1, false)
						if j%3 == 0 {
							c08EncodeOne(res, []string{exprs[j]}, st, j%2 == 0, true, true)
						}
						// the raw-text senders, with 1, 2 and 3 expressions per ad
						if j%2 == 0 {
							c08RawSenders(res, []string{exprs[j]}, st)
							c08RawSenders(res, []string{exprs[j], exprs[(j*7+3)%len(exprs)], exprs[(j*11+5)%len(exprs)]}, st)
						}
					}
					res.Sample = map[string]any{"state": st.String(), "exprs": exprs[lo:min(lo+3, hi)]}
					return res
				}})
			}
		}
	}
	return p
}

// c08RawSenders: the raw-text senders. The same expression lines go out through
// PutClassAdRaw (strings), PutClassAdRawBytes with separately allocated slices, and
// PutClassAdRawBytes with the slices cut ADJACENT out of one shared scratch buffer (the use the
// API documents). Each must leave the caller's bytes alone and the parsing receiver must
// rebuild every attribute as the full parser reads its text.
func c08RawSenders(res *vlib.Result, exprs []string, st c09State) {
	ctx := context.Background()
	var lines []string
	want := map[string]*classad.Expr{}
	for i, e := range exprs {
		pe, err := classad.ParseExpr(e)
		if err != nil {
			res.Skipped++
			return
		}
		n := fmt.Sprintf("Attr%d", i)
		lines = append(lines, n+" = "+pe.String())
		r, err := classad.ParseExpr(pe.String())
		if err != nil {
			res.Skipped++
			return
		}
		want[n] = r
	}
	for _, sender := range []string{"strings", "bytes-separate", "bytes-shared-buffer", "strings-padded"} {
		res.Evals++
		sb := &netsim.Buf{}
		m := message.NewMessageForStream(c09Stream(st, sb))
		var err error
		var shared, before []byte
		switch sender {
		case "strings":
			err = m.PutClassAdRaw(ctx, lines, "Machine", "Job")
		case "strings-padded":
			// pre-rendered text with blanks / a tab around the name and the '=' (legal for the full
			// parser, which names the attribute without them)
			var padded []string
			for i, l := range lines {
				eq := strings.Index(l, " = ")
				padded = append(padded, []string{"  ", "\t", " "}[i%3]+l[:eq]+[]string{" =  ", "\t= ", "="}[i%3]+l[eq+3:])
			}
			err = m.PutClassAdRaw(ctx, padded, "Machine", "Job")
		case "bytes-separate":
			var bs [][]byte
			for _, l := range lines {
				bs = append(bs, []byte(l))
			}
			err = m.PutClassAdRawBytes(ctx, bs, "Machine", "Job")
		case "bytes-shared-buffer":
			var bs [][]byte
			for _, l := range lines {
				shared = append(shared, l...)
			}
			shared = append(shared, "<<scratch space behind the last expression>>"...)
			before = append([]byte(nil), shared...)
			off := 0
			for _, l := range lines {
				bs = append(bs, shared[off:off+len(l)]) // capacity runs on into the next expression
				off += len(l)
			}
			err = m.PutClassAdRawBytes(ctx, bs, "Machine", "Job")
		}
		if err == nil {
			err = m.PutInt(ctx, 31337)
		}
		if err == nil {
			err = m.FinishMessage(ctx)
		}
		key := func(k string) string { return fmt.Sprintf("C08/raw-sender/%s/%s/%v", k, sender, st) }
		if err != nil {
			res.Violate(key("put-error"), "lines %q: %v", lines, err)
			continue
		}
		res.Nontrivial++
		if before != nil && !bytes.Equal(before, shared) {
			res.Violate(key("caller-buffer-modified"), "lines %q: the sender changed the caller's buffer at offset %d", lines, firstDiff(before, shared))
		}
		rm := message.NewMessageFromStream(c09Stream(st, &netsim.Buf{R: sb.W}))
		got, err := rm.GetClassAd(ctx)
		if err != nil {
			res.Violate(key("receiver-error"), "lines %q: %v", lines, err)
			continue
		}
		if s, e2 := rm.GetInt(ctx); e2 != nil || s != 31337 {
			res.Violate(key("bytes-consumed"), "lines %q: sentinel read %d, %v", lines, s, e2)
			continue
		}
		for n, w := range want {
			g, ok := got.Lookup(n)
			if !ok {
				res.Violate(key("attr-lost"), "lines %q: attribute %s missing at the receiver", lines, n)
				continue
			}
			if !g.Equal(w) && !sameValue(g.Eval(nil), w.Eval(nil)) {
				res.Violate(key("value-differs"), "lines %q: %s rebuilt as %s, parser reads %s", lines, n, g.String(), w.String())
			}
		}
		if mt, _ := got.EvaluateAttrString("MyType"); mt != "Machine" {
			res.Violate(key("mytype"), "MyType arrived as %q", mt)
		}
	}
	res.Outcome("raw-senders-ok")
}

// c08TypeNames: "the sender's ... type names" for names that are not plain ASCII words - the
// three receivers must hand back (or skip) exactly the type names the sender put.
func c08TypeNames(res *vlib.Result, st c09State) {
	ctx := context.Background()
	names := []string{"Machine", "Job", "Maschine_ü", "ジョブ", "Type With Blanks", "t", "ÜBER", "a.b-c", "Scheduler", strings.Repeat("LongType", 12)} // (the raw-text receiver takes anything over 128 bytes for a framing desync, by design)
	for i, my := range names {
		target := names[(i*3+1)%len(names)]
		res.Evals++
		res.Nontrivial++
		ad := classad.New()
		_ = ad.Set("Attr0", 7)
		_ = ad.Set("MyType", my)
		_ = ad.Set("TargetType", target)
		sb := &netsim.Buf{}
		m := message.NewMessageForStream(c09Stream(st, sb))
		err := m.PutClassAd(ctx, ad)
		if err == nil {
			err = m.PutInt(ctx, 31337)
		}
		if err == nil {
			err = m.FinishMessage(ctx)
		}
		id := fmt.Sprintf("MyType=%q TargetType=%q state=%v", my, target, st)
		if err != nil {
			res.Violate("C08/type-names/put-error", "%s: %v", id, err)
			continue
		}
		for _, rk := range []string{"parse", "raw", "skip"} {
			rm := message.NewMessageFromStream(c09Stream(st, &netsim.Buf{R: sb.W}))
			var got *classad.ClassAd
			var err error
			switch rk {
			case "parse":
				got, err = rm.GetClassAd(ctx)
			case "raw":
				var txt string
				if txt, err = rm.GetClassAdRaw(ctx); err == nil {
					got, err = classad.ParseOld(txt)
				}
			case "skip":
				err = rm.SkipClassAdRaw(ctx)
			}
			if err != nil {
				res.Violate("C08/type-names/"+rk+"-receiver-error", "%s: %v", id, err)
				continue
			}
			if s, e2 := rm.GetInt(ctx); e2 != nil || s != 31337 {
				res.Violate("C08/type-names/"+rk+"-bytes-consumed", "%s: sentinel %d %v", id, s, e2)
				continue
			}
			if got != nil {
				mt, _ := got.EvaluateAttrString("MyType")
				tt, _ := got.EvaluateAttrString("TargetType")
				if mt != my || tt != target {
					res.Violate("C08/type-names/"+rk+"-differs", "%s: receiver has MyType=%q TargetType=%q", id, mt, tt)
				}
			}
		}
	}
	res.Outcome("type-names-ok")
}
