package props

// C19, cancellation BETWEEN two I/O steps: the context ends while the endpoint is busy
// with something else than the connection - inside one of the callbacks a handshake
// makes (the per-command policy hook, the post-authentication policy hook) - so the next
// stream operation starts with a context that is already over. The handshake (and
// server.ServeConn around it) must return promptly with an error and the connection must
// be closed, exactly as when the context ends while an operation is blocked.

import (
	"context"
	"fmt"
	"net"
	"time"

	"github.com/bbockelm/cedar/client/sharedport"
	"github.com/bbockelm/cedar/security"
	"github.com/bbockelm/cedar/server"
	"github.com/bbockelm/cedar/stream"

	"verif/netsim"
	"verif/vlib"
)

// c19Between: layer "serveconn" (server.Server.ServeConn) or "handshake" (Authenticator.
// ServerHandshake); hook "per-command-policy" or "post-auth-policy"; kind "cancel" or "deadline".
func c19Between(res *vlib.Result, layer, hook, kind string) {
	res.Evals++
	id := fmt.Sprintf("%s, context ends (%s) inside the %s callback", layer, kind, hook)
	var ctx context.Context
	var fire func()
	if kind == "cancel" {
		c, cancel := context.WithCancel(context.Background())
		ctx, fire = c, cancel
		defer cancel()
	} else {
		mc := newManualCtx()
		ctx, fire = mc, mc.fire
	}
	fired := false
	sc := baseCfg(security.SecurityRequired, security.SecurityRequired, []security.AuthMethod{mCTB}, []security.CryptoMethod{security.CryptoAES}, true)
	perCmd := func(c int) *security.SecurityConfig {
		if hook == "per-command-policy" {
			fired = true
			fire()
		}
		return nil
	}
	sc.PostAuthPolicy = func(u, p string, a, e bool) (string, []int) {
		if hook == "post-auth-policy" {
			fired = true
			fire()
		}
		return "", nil
	}
	world := netsim.NewWorld(2)
	ce, se := netsim.Pipe(world, hsClientAddr, hsServerAddr)
	done := make(chan error, 1)
	go func() {
		defer world.Done()
		var err error
		if layer == "serveconn" {
			srv := server.New(sc)
			srv.SecurityConfigForCommand = perCmd
			// (ServeConn installs a post-authentication policy of its own; its identity-mapping
			// callback is the hook that runs at that point)
			srv.FQUMapper = func(u, peer string) string {
				if hook == "post-auth-policy" {
					fired = true
					fire()
				}
				return u
			}
			srv.Handle(5, func(ctx context.Context, c *server.Conn) error { return nil }, "READ")
			err = srv.ServeConn(ctx, se)
		} else {
			a := security.NewAuthenticator(sc, stream.NewStream(se))
			a.ServerConfigForCommand = perCmd
			var neg *security.SecurityNegotiation
			neg, err = a.ServerHandshake(ctx)
			if neg != nil && neg.SessionId != "" {
				security.GetSessionCache().Invalidate(neg.SessionId)
			}
		}
		done <- err
	}()
	go func() {
		defer world.Done()
		cc := baseCfg(security.SecurityRequired, security.SecurityRequired, []security.AuthMethod{mCTB}, []security.CryptoMethod{security.CryptoAES}, false)
		cc.Command = 5
		cctx, ccancel := context.WithTimeout(context.Background(), 30*time.Second)
		defer ccancel()
		_, _ = security.NewAuthenticator(cc, stream.NewStream(ce)).ClientHandshake(cctx)
		// the client keeps its end open: whether the SERVER closed is what is observed
	}()
	var err error
	select {
	case err = <-done:
	case <-time.After(20 * time.Second):
		res.Violate(fmt.Sprintf("C19/hang/between-steps/%s/%s/%s", layer, hook, kind), "%s: did not return within 20 s", id)
		ce.Close()
		se.Close()
		<-done
		return
	}
	if !fired {
		res.Outcome("between-steps-hook-not-reached")
		ce.Close()
		return
	}
	res.Nontrivial++
	if err == nil {
		res.Violate(fmt.Sprintf("C19/no-error/between-steps/%s/%s/%s", layer, hook, kind), "%s: returned success although its context had ended before the handshake was over", id)
	} else if !se.ClosedSoon(3 * time.Second) {
		res.Violate(fmt.Sprintf("C19/conn-left-open/between-steps/%s/%s/%s", layer, hook, kind), "%s: returned %v but left the connection open", id, err)
	}
	ce.Close()
	res.Outcome("between-steps-unblocked-with-error")
}

func c19BetweenCases(yield func(vlib.Case)) {
	yield(vlib.Case{ID: "shared-port-stream/connect-deadline", Run: func() *vlib.Result {
		res := &vlib.Result{}
		c19SharedPort(res, 400*time.Millisecond)
		c19SharedPort(res, 1500*time.Millisecond)
		return res
	}})
	for _, layer := range []string{"handshake", "serveconn"} {
		for _, hook := range []string{"per-command-policy", "post-auth-policy"} {
			for _, kind := range []string{"cancel", "deadline"} {
				if layer == "serveconn" && kind == "deadline" {
					// ServeConn derives child contexts; the harness-fired deadline is a foreign Context
					// implementation, whose end reaches derived contexts only through a goroutine
					// (documented behaviour of package context) - "the context has ended" would not be
					// a fact yet when the callback returns. Only the standard cancel is used here.
					continue
				}
				layer, hook, kind := layer, hook, kind
				yield(vlib.Case{ID: fmt.Sprintf("between-steps/%s/%s/%s", layer, hook, kind), Run: func() *vlib.Result {
					res := &vlib.Result{}
					c19Between(res, layer, hook, kind)
					return res
				}})
			}
		}
	}
}

// c19SharedPort: "a context that can never be cancelled adds no failure mode", on a stream
// obtained through the shared-port dialer over real loopback TCP with a CONNECT context that
// carries a deadline: once the stream is returned, what is done with it under
// context.Background() - before and after the connect context's deadline has passed - must work.
func c19SharedPort(res *vlib.Result, connectBudget time.Duration) {
	res.Evals++
	ln, err := net.Listen("tcp", "127.0.0.1:0")
	if err != nil {
		res.Outcome("listen-failed")
		return
	}
	defer ln.Close()
	bg := context.Background()
	go func() { // shared_port front end + echo daemon
		c, err := ln.Accept()
		if err != nil {
			return
		}
		defer c.Close()
		st := stream.NewStream(c)
		if _, err := st.ReceiveCompleteMessage(bg); err != nil { // the SHARED_PORT_CONNECT request
			return
		}
		st = stream.NewStream(c)
		for {
			m, err := st.ReceiveCompleteMessage(bg)
			if err != nil {
				return
			}
			if err := st.SendMessage(bg, m); err != nil {
				return
			}
		}
	}()
	ctx, cancel := context.WithTimeout(bg, connectBudget)
	defer cancel()
	dl, _ := ctx.Deadline()
	s, err := sharedport.NewSharedPortClient("c19-check").ConnectViaSharedPort(ctx, ln.Addr().String(), "daemon_1", 5*time.Second)
	id := fmt.Sprintf("stream from ConnectViaSharedPort (connect context with a %v deadline)", connectBudget)
	if err != nil {
		res.Violate("C19/harness", "%s: %v", id, err)
		return
	}
	defer s.Close()
	res.Nontrivial++
	exchange := func(when string) bool {
		if err := s.SendMessage(bg, []byte("ping-"+when)); err != nil {
			res.Violate("C19/spurious-failure/shared-port-stream/"+when, "%s: send under context.Background() %s: %v", id, when, err)
			return false
		}
		m, err := s.ReceiveCompleteMessage(bg)
		if err != nil || string(m) != "ping-"+when {
			res.Violate("C19/spurious-failure/shared-port-stream/"+when, "%s: receive under context.Background() %s: %v", id, when, err)
			return false
		}
		return true
	}
	if !exchange("before-the-connect-deadline") {
		return
	}
	time.Sleep(time.Until(dl) + 200*time.Millisecond)
	if !exchange("after-the-connect-deadline") {
		return
	}
	res.Outcome("shared-port-stream-unaffected-by-connect-deadline")
}
