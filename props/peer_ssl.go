package props

// Scripted client for the SSL / SCITOKENS sub-protocol: TLS records tunnelled
// through CEDAR messages (status int, length int, then that many bytes), the
// HOLDING confirmations, the session key sent by the server over TLS and - for
// SCITOKENS - the token (4-byte size + bytes) sent by the client over TLS. Written
// from the protocol description; it uses Go's crypto/tls only as the TLS engine.

import (
	"crypto/tls"
	"fmt"
	"net"
	"time"

	"verif/refcodec"
)

type sslTunnel struct {
	p      *peerConn
	status int64
	rbuf   []byte
}

func (t *sslTunnel) Read(b []byte) (int, error) {
	for len(t.rbuf) == 0 {
		m, err := t.p.recvMsg()
		if err != nil {
			return 0, err
		}
		r := &wireReader{b: m}
		r.int() // peer status
		n := int(r.int())
		if r.err != nil || n < 0 || n > len(r.b) {
			return 0, fmt.Errorf("peer-ssl: malformed tunnel message")
		}
		t.rbuf = append(t.rbuf, r.b[:n]...)
	}
	n := copy(b, t.rbuf)
	t.rbuf = t.rbuf[n:]
	return n, nil
}

func (t *sslTunnel) Write(b []byte) (int, error) {
	m := append(refcodec.EncInt(t.status), refcodec.EncInt(int64(len(b)))...)
	m = append(m, b...)
	if err := t.p.sendMsg(m, false); err != nil {
		return 0, err
	}
	return len(b), nil
}
func (t *sslTunnel) Close() error                     { return nil }
func (t *sslTunnel) LocalAddr() net.Addr              { return tunnelAddr{} }
func (t *sslTunnel) RemoteAddr() net.Addr             { return tunnelAddr{} }
func (t *sslTunnel) SetDeadline(time.Time) error      { return nil }
func (t *sslTunnel) SetReadDeadline(time.Time) error  { return nil }
func (t *sslTunnel) SetWriteDeadline(time.Time) error { return nil }

type tunnelAddr struct{}

func (tunnelAddr) Network() string { return "cedar-tunnel" }
func (tunnelAddr) String() string  { return "cedar-tunnel" }

// sslScriptedClient runs the SSL sub-protocol as a client once the method has been
// selected, up to and including the session key; it returns the TLS connection for
// whatever the caller sends next (SCITOKENS: the token). tlsLenOverride >= 0 replaces
// the length field of the client's FIRST tunnel message (the ClientHello).
func sslScriptedClient(p *peerConn, tlsLenOverride int64) (*tls.Conn, error) {
	if _, err := p.recvMsg(); err != nil { // server status
		return nil, err
	}
	if err := p.sendMsg(refcodec.EncInt(0), false); err != nil { // client status OK
		return nil, err
	}
	tun := &sslTunnel{p: p, status: 1}
	if tlsLenOverride >= 0 {
		// announce a length the message does not have, then stop
		m := append(refcodec.EncInt(1), refcodec.EncInt(tlsLenOverride)...)
		m = append(m, []byte("\x16\x03\x01\x00\x05hello")...)
		return nil, p.sendMsg(m, false)
	}
	tc := tls.Client(tun, &tls.Config{InsecureSkipVerify: true, ServerName: "localhost"})
	if err := tc.Handshake(); err != nil {
		return nil, fmt.Errorf("peer-ssl: tls handshake: %w", err)
	}
	confirm := func() error {
		if _, err := p.recvMsg(); err != nil { // server status (HOLDING)
			return err
		}
		return p.sendMsg(append(refcodec.EncInt(4), refcodec.EncInt(0)...), false)
	}
	if err := confirm(); err != nil {
		return nil, err
	}
	key := make([]byte, 256)
	got := 0
	for got < len(key) {
		n, err := tc.Read(key[got:])
		if err != nil {
			return nil, fmt.Errorf("peer-ssl: session key after %d bytes: %w", got, err)
		}
		got += n
	}
	if err := confirm(); err != nil {
		return nil, err
	}
	return tc, nil
}
