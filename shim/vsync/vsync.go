package vsync

import (
	"sync"

	"github.com/bbockelm/cedar/verifshim/vsched"
)

type Once = sync.Once

type Mutex struct {
	real   sync.Mutex
	locked bool
	vc     []int
}

func (m *Mutex) Lock() {
	if !vsched.Active() {
		m.real.Lock()
		return
	}
	vsched.Block("Mutex.Lock", func() bool { return !m.locked })
	m.locked = true
	vsched.Cur().Join(m.vc)
}
func (m *Mutex) Unlock() {
	if !vsched.Active() {
		m.real.Unlock()
		return
	}
	t := vsched.Cur()
	m.vc = t.Snapshot()
	t.Tick()
	m.locked = false
}

type RWMutex struct {
	real     sync.RWMutex
	w        bool
	r        int
	vcW, vcR []int
}

func join(a, b []int) []int {
	if a == nil {
		return append([]int(nil), b...)
	}
	for i := range b {
		if b[i] > a[i] {
			a[i] = b[i]
		}
	}
	return a
}

func (m *RWMutex) Lock() {
	if !vsched.Active() {
		m.real.Lock()
		return
	}
	vsched.Block("RWMutex.Lock", func() bool { return !m.w && m.r == 0 })
	m.w = true
	vsched.Cur().Join(m.vcW)
	vsched.Cur().Join(m.vcR)
}
func (m *RWMutex) Unlock() {
	if !vsched.Active() {
		m.real.Unlock()
		return
	}
	t := vsched.Cur()
	m.vcW = t.Snapshot()
	t.Tick()
	m.w = false
}
func (m *RWMutex) RLock() {
	if !vsched.Active() {
		m.real.RLock()
		return
	}
	vsched.Block("RWMutex.RLock", func() bool { return !m.w })
	m.r++
	vsched.Cur().Join(m.vcW)
}
func (m *RWMutex) RUnlock() {
	if !vsched.Active() {
		m.real.RUnlock()
		return
	}
	t := vsched.Cur()
	m.vcR = join(m.vcR, t.Snapshot())
	t.Tick()
	m.r--
}

// WaitGroup / Cond / Map / Pool are not hooked (none is used by the
// instrumented files); they are re-exported so a rewritten import still compiles.
type (
	WaitGroup = sync.WaitGroup
	Map       = sync.Map
	Pool      = sync.Pool
	Locker    = sync.Locker
)
