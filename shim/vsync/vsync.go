package vsync

import (
	"sync"

	"github.com/bbockelm/cedar/verifshim/vsched"
)

// Once: under the scheduler a thread that finds the body running blocks cooperatively (the
// body may contain scheduling points); completion is a release, every return an acquire.
type Once struct {
	real    sync.Once
	done    bool
	running bool
	vc      []int
}

func (o *Once) Do(f func()) {
	if !vsched.Active() {
		o.real.Do(func() { f(); o.done = true })
		return
	}
	vsched.Yield("Once.Do")
	if o.done {
		vsched.Cur().Join(o.vc)
		return
	}
	if o.running {
		vsched.Block("Once.Do(wait)", func() bool { return o.done })
		vsched.Cur().Join(o.vc)
		return
	}
	o.running = true
	o.real.Do(f)
	t := vsched.Cur()
	o.vc = t.Snapshot()
	t.Tick()
	o.done, o.running = true, false
}

type Mutex struct {
	real   sync.Mutex
	locked bool
	vc     []int
}

func (m *Mutex) Lock() {
	if !vsched.Active() {
		m.real.Lock()
		return
	}
	vsched.Block("Mutex.Lock", func() bool { return !m.locked })
	m.locked = true
	vsched.Cur().Join(m.vc)
}
func (m *Mutex) Unlock() {
	if !vsched.Active() {
		m.real.Unlock()
		return
	}
	t := vsched.Cur()
	m.vc = t.Snapshot()
	t.Tick()
	m.locked = false
}

type RWMutex struct {
	real     sync.RWMutex
	w        bool
	wWait    int // Lock calls that are blocked: as in Go's RWMutex, a pending writer keeps NEW readers out
	r        int
	vcW, vcR []int
}

func join(a, b []int) []int {
	if a == nil {
		return append([]int(nil), b...)
	}
	for i := range b {
		if b[i] > a[i] {
			a[i] = b[i]
		}
	}
	return a
}

func (m *RWMutex) Lock() {
	if !vsched.Active() {
		m.real.Lock()
		return
	}
	// two points: other threads may run before this writer has arrived (with the lock as the
	// previous operation left it), and again while it waits as a registered writer
	vsched.Yield("RWMutex.Lock(arrive)")
	m.wWait++
	vsched.Block("RWMutex.Lock", func() bool { return !m.w && m.r == 0 })
	m.wWait--
	m.w = true
	vsched.Cur().Join(m.vcW)
	vsched.Cur().Join(m.vcR)
}
func (m *RWMutex) Unlock() {
	if !vsched.Active() {
		m.real.Unlock()
		return
	}
	t := vsched.Cur()
	m.vcW = t.Snapshot()
	t.Tick()
	m.w = false
}
func (m *RWMutex) RLock() {
	if !vsched.Active() {
		m.real.RLock()
		return
	}
	vsched.Block("RWMutex.RLock", func() bool { return !m.w && m.wWait == 0 })
	m.r++
	vsched.Cur().Join(m.vcW)
}
func (m *RWMutex) RUnlock() {
	if !vsched.Active() {
		m.real.RUnlock()
		return
	}
	t := vsched.Cur()
	m.vcR = join(m.vcR, t.Snapshot())
	t.Tick()
	m.r--
}

// WaitGroup / Cond / Map / Pool are not hooked (none is used by the
// instrumented files); they are re-exported so a rewritten import still compiles.
type (
	WaitGroup = sync.WaitGroup
	Map       = sync.Map
	Pool      = sync.Pool
	Locker    = sync.Locker
)
