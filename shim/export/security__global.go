//go:build verif

package security

import "sync"

// Verif seam (overlay-only, build tag verif): put the package's process-wide lazy state
// back to "never used", so that each explored execution is a process's FIRST use of the
// global session cache. The zero values are copies taken at package initialisation.
var (
	verifOnceZero = sessionCacheMutex
)

func VerifResetGlobalSessionState() {
	globalSessionCache = nil
	sessionCacheMutex = verifOnceZero
	inheritedSessionsOnce = sync.Once{}
	inheritedSessions = nil
	inheritedParentAddr = ""
	inheritedParentPID = 0
}
