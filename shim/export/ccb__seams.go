//go:build verif

package ccb

import (
	"context"
	"net"

	"github.com/PelicanPlatform/classad/classad"

	"github.com/bbockelm/cedar/security"
	"github.com/bbockelm/cedar/stream"
)

// Verif seams (overlay-only, build tag verif): the two narrow functions that
// decide which connection a CCB dial hands back.

func VerifAcceptReversed(ctx context.Context, ln net.Listener, connectID string) (net.Conn, error) {
	return acceptReversed(ctx, ln, connectID)
}

func VerifProxyRequestOnStream(ctx context.Context, brokerConn net.Conn, s *stream.Stream, ccbid, connectID string) (net.Conn, error) {
	return proxyRequestOnStream(ctx, brokerConn, s, ccbid, "", connectID, "", "verif")
}

// ---- C17 S4: one broker registration with its stream already established ----

// VerifBrokerReg wraps a brokerReg (inside a real Listener) whose stream was
// established by the harness, so that the functions that share it - the
// heartbeat's and the request handlers' writeToBroker, serve's read, closeConn,
// and the Listener's status getters - can be driven from scheduler threads.
type VerifBrokerReg struct {
	L *Listener
	r *brokerReg
}

func VerifNewBrokerReg(s *stream.Stream, conn net.Conn, contact string, streaming bool) *VerifBrokerReg {
	l := NewListener(ListenerConfig{BrokerAddr: "10.2.2.2:9618", Name: "verif"})
	r := l.regs[0]
	r.mu.Lock()
	r.stream, r.conn, r.contact, r.cookie, r.brokerStreaming, r.registered = s, conn, contact, "cookie", streaming, true
	r.mu.Unlock()
	return &VerifBrokerReg{L: l, r: r}
}

func (v *VerifBrokerReg) WriteToBroker(ctx context.Context, ad *classad.ClassAd) error {
	return v.r.writeToBroker(ctx, ad)
}

// ServeReadOne is one iteration of serve's loop: read one control ad from the
// registration's stream (serve reads r.stream without the lock, as here).
func (v *VerifBrokerReg) ServeReadOne(ctx context.Context) (*classad.ClassAd, error) {
	return ReadControlAd(ctx, v.r.stream)
}

func (v *VerifBrokerReg) CloseConn() { v.r.closeConn() }

// VerifDialBrokerAuthCmd: the requester/listener path that reaches a broker - by
// TCP, shared port or a caller-supplied carrier - and runs the client handshake
// for one CEDAR command on it.
func VerifDialBrokerAuthCmd(ctx context.Context, brokerAddr string, sec *security.SecurityConfig, command int, dialer BrokerDialer) (*security.SecurityNegotiation, error) {
	conn, _, neg, err := dialBrokerAuthCmd(ctx, brokerAddr, sec, command, dialer)
	if conn != nil {
		_ = conn.Close()
	}
	return neg, err
}
