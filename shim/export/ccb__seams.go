//go:build verif

package ccb

import (
	"context"
	"net"

	"github.com/bbockelm/cedar/stream"
)

// Verif seams (overlay-only, build tag verif): the two narrow functions that
// decide which connection a CCB dial hands back.

func VerifAcceptReversed(ctx context.Context, ln net.Listener, connectID string) (net.Conn, error) {
	return acceptReversed(ctx, ln, connectID)
}

func VerifProxyRequestOnStream(ctx context.Context, brokerConn net.Conn, s *stream.Stream, ccbid, connectID string) (net.Conn, error) {
	return proxyRequestOnStream(ctx, brokerConn, s, ccbid, "", connectID, "", "verif")
}
