//go:build verif

package security

import (
	"context"
	"net"

	"github.com/bbockelm/cedar/stream"
)

// Verif seams (overlay-only, build tag verif): narrow entry points to the
// filesystem-authentication halves, so a harness can drive them without a whole
// handshake and can reach the remote (FS_REMOTE) variant, which no wire
// bitmask selects.

func VerifFSClient(ctx context.Context, s *stream.Stream, remote bool) error {
	a := &Authenticator{config: &SecurityConfig{}, stream: s}
	neg := &SecurityNegotiation{IsClient: true, ClientConfig: a.config, ServerConfig: &SecurityConfig{}}
	return a.performFSAuthenticationClient(ctx, neg, remote)
}

func VerifFSServer(ctx context.Context, s *stream.Stream, remote bool) (string, error) {
	a := &Authenticator{config: &SecurityConfig{}, stream: s}
	neg := &SecurityNegotiation{IsClient: false, ClientConfig: &SecurityConfig{}, ServerConfig: a.config}
	err := a.performFSAuthenticationServer(ctx, neg, remote)
	return neg.User, err
}

func VerifValidateFSAuthPath(p string, remote bool, peer net.Addr) (string, error) {
	return validateFSAuthPath(p, remote, peer)
}
