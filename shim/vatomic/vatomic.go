// Package vatomic stands in for sync/atomic in the instrumented files of the C17
// check: every atomic operation is a scheduling point of the cooperative
// scheduler and an acquire+release edge of the vector-clock race detector.
package vatomic

import (
	"sync"
	"sync/atomic"
	"unsafe"

	"github.com/bbockelm/cedar/verifshim/vsched"
)

var (
	mu  sync.Mutex
	vcs = map[unsafe.Pointer][]int{}
)

func sync_(p unsafe.Pointer, what string) {
	if !vsched.Active() {
		return
	}
	vsched.Yield(what)
	t := vsched.Cur()
	mu.Lock()
	t.Join(vcs[p])
	vcs[p] = t.Snapshot()
	mu.Unlock()
	t.Tick()
}

func AddUint64(p *uint64, d uint64) uint64 {
	sync_(unsafe.Pointer(p), "atomic.AddUint64")
	return atomic.AddUint64(p, d)
}
func LoadUint64(p *uint64) uint64 {
	sync_(unsafe.Pointer(p), "atomic.LoadUint64")
	return atomic.LoadUint64(p)
}
func StoreUint64(p *uint64, v uint64) {
	sync_(unsafe.Pointer(p), "atomic.StoreUint64")
	atomic.StoreUint64(p, v)
}
func CompareAndSwapUint64(p *uint64, o, n uint64) bool {
	sync_(unsafe.Pointer(p), "atomic.CompareAndSwapUint64")
	return atomic.CompareAndSwapUint64(p, o, n)
}
func AddInt64(p *int64, d int64) int64 {
	sync_(unsafe.Pointer(p), "atomic.AddInt64")
	return atomic.AddInt64(p, d)
}
func LoadInt64(p *int64) int64 {
	sync_(unsafe.Pointer(p), "atomic.LoadInt64")
	return atomic.LoadInt64(p)
}
func StoreInt64(p *int64, v int64) {
	sync_(unsafe.Pointer(p), "atomic.StoreInt64")
	atomic.StoreInt64(p, v)
}
func CompareAndSwapInt64(p *int64, o, n int64) bool {
	sync_(unsafe.Pointer(p), "atomic.CompareAndSwapInt64")
	return atomic.CompareAndSwapInt64(p, o, n)
}
func AddInt32(p *int32, d int32) int32 {
	sync_(unsafe.Pointer(p), "atomic.AddInt32")
	return atomic.AddInt32(p, d)
}
func LoadInt32(p *int32) int32 {
	sync_(unsafe.Pointer(p), "atomic.LoadInt32")
	return atomic.LoadInt32(p)
}
func StoreInt32(p *int32, v int32) {
	sync_(unsafe.Pointer(p), "atomic.StoreInt32")
	atomic.StoreInt32(p, v)
}
func CompareAndSwapInt32(p *int32, o, n int32) bool {
	sync_(unsafe.Pointer(p), "atomic.CompareAndSwapInt32")
	return atomic.CompareAndSwapInt32(p, o, n)
}
func AddUint32(p *uint32, d uint32) uint32 {
	sync_(unsafe.Pointer(p), "atomic.AddUint32")
	return atomic.AddUint32(p, d)
}
func LoadUint32(p *uint32) uint32 {
	sync_(unsafe.Pointer(p), "atomic.LoadUint32")
	return atomic.LoadUint32(p)
}
func StoreUint32(p *uint32, v uint32) {
	sync_(unsafe.Pointer(p), "atomic.StoreUint32")
	atomic.StoreUint32(p, v)
}
func CompareAndSwapUint32(p *uint32, o, n uint32) bool {
	sync_(unsafe.Pointer(p), "atomic.CompareAndSwapUint32")
	return atomic.CompareAndSwapUint32(p, o, n)
}
