// Package vnet replaces "net" in client/client.go for the C17 check: the only
// thing that file uses is net.Dialer{Timeout, FallbackDelay}.DialContext, which
// is redirected to a harness-provided dial function when one is installed.
package vnet

import (
	"context"
	"net"
	"time"
)

type (
	Conn = net.Conn
	Addr = net.Addr
)

// DialHook, when set, serves every DialContext.
var DialHook func(ctx context.Context, network, addr string) (net.Conn, error)

type Dialer struct {
	Timeout       time.Duration
	FallbackDelay time.Duration
	KeepAlive     time.Duration
}

func (d *Dialer) DialContext(ctx context.Context, network, addr string) (net.Conn, error) {
	if DialHook != nil {
		return DialHook(ctx, network, addr)
	}
	r := net.Dialer{Timeout: d.Timeout, FallbackDelay: d.FallbackDelay, KeepAlive: d.KeepAlive}
	return r.DialContext(ctx, network, addr)
}
