// Package vsched is the controlled cooperative scheduler of the C17 check: one
// runnable thread at a time, scheduling points at every hooked operation (vsync
// lock operations, instrumented field accesses, scheduler-aware conn I/O),
// depth-first exploration of schedules with iterative deviation bounding
// (every non-default scheduling choice, preemptive or not, costs one; after
// Musuvathi-Qadeer context bounding), and a vector-clock happens-before race detector on the
// instrumented memory locations. It is compiled into the cedar module through a
// build overlay (virtual package github.com/bbockelm/cedar/verifshim/vsched);
// when no scheduler is active every hook is a no-op.
package vsched

import (
	"fmt"
	"sort"
	"unsafe"
)

// SortedKeys returns the keys of a string-keyed map in sorted order; the
// instrumenter routes `range` loops over instrumented maps through it so that
// iteration order is deterministic under the scheduler.
func SortedKeys[M ~map[string]V, V any](m M) []string {
	ks := make([]string, 0, len(m))
	for k := range m {
		ks = append(ks, k)
	}
	sort.Strings(ks)
	return ks
}

type Thread struct {
	ID      int
	wake    chan struct{}
	vc      []int
	done    bool
	enabled func() bool
	desc    string
	panicV  any
}

type Point struct {
	Enabled        []int
	Chosen         int
	RunningEnabled bool
	Desc           string
}

type Sched struct {
	threads   []*Thread
	running   *Thread
	yield     chan *Thread
	prefix    []int
	Points    []Point
	Races     []string
	shadow    map[uintptr]*shadowLoc
	Deadlock  bool
	Diverged  bool
	Panics    []string
	StepLimit bool
	maxPoints int
	abort     bool
}

type acc struct {
	tid, clk int
	desc     string
}
type shadowLoc struct {
	w     *acc
	reads map[int]acc
	// keep pins the object for the whole execution: without it a freed object's
	// address could be reused by an unrelated one and the two would be mistaken
	// for one location (false race reports).
	keep unsafe.Pointer
}

var cur *Sched

func Active() bool { return cur != nil }
func Cur() *Thread { return cur.running }

// Run executes bodies as threads under the schedule prefix.
func Run(prefix []int, maxPoints int, bodies ...func()) *Sched {
	s := &Sched{yield: make(chan *Thread), prefix: prefix, shadow: map[uintptr]*shadowLoc{}, maxPoints: maxPoints}
	cur = s
	n := len(bodies)
	for i := 0; i < n; i++ {
		t := &Thread{ID: i, wake: make(chan struct{}), vc: make([]int, n)}
		t.vc[i] = 1
		t.enabled = func() bool { return true }
		t.desc = "start"
		s.threads = append(s.threads, t)
	}
	for i, b := range bodies {
		t, b := s.threads[i], b
		go func() {
			<-t.wake
			defer func() {
				if x := recover(); x != nil {
					if x != abortToken {
						t.panicV = x
					}
				}
				t.done = true
				s.yield <- t
			}()
			b()
		}()
	}
	aborting := false
	for {
		var en []int
		alive := false
		for _, t := range s.threads {
			if t.done {
				continue
			}
			alive = true
			if aborting || t.enabled() {
				en = append(en, t.ID)
			}
		}
		if !alive {
			break
		}
		if len(en) == 0 {
			s.Deadlock = true
			aborting = true
			continue
		}
		runEn := false
		if s.running != nil && !s.running.done {
			for k, id := range en {
				if id == s.running.ID {
					runEn = true
					copy(en[1:k+1], en[:k])
					en[0] = id
					break
				}
			}
		}
		ch := 0
		if !aborting {
			if i := len(s.Points); i < len(s.prefix) {
				ch = s.prefix[i]
				if ch >= len(en) {
					s.Diverged = true
					aborting = true
					ch = 0
				}
			}
			if s.maxPoints > 0 && len(s.Points) >= s.maxPoints {
				s.StepLimit = true
				aborting = true
			}
		}
		t := s.threads[en[ch]]
		if !aborting {
			s.Points = append(s.Points, Point{Enabled: append([]int(nil), en...), Chosen: ch, RunningEnabled: runEn, Desc: t.desc})
		}
		s.running = t
		s.abort = aborting
		t.wake <- struct{}{}
		<-s.yield
	}
	for _, t := range s.threads {
		if t.panicV != nil {
			s.Panics = append(s.Panics, fmt.Sprintf("T%d: %v", t.ID, t.panicV))
		}
	}
	cur = nil
	return s
}

type abortT struct{}

var abortToken = abortT{}

func (s *Sched) abortNow() bool { return s.abort }

// point parks the current thread until the scheduler picks it again.
func point(desc string, enabled func() bool) {
	s := cur
	t := s.running
	t.enabled, t.desc = enabled, desc
	s.yield <- t
	<-t.wake
	if s.abort {
		panic(abortToken) // unwind this thread: the run is being torn down (deadlock / step limit)
	}
}

func Yield(desc string)                      { point(desc, func() bool { return true }) }
func Block(desc string, enabled func() bool) { point(desc, enabled) }

func (t *Thread) Tick()           { t.vc[t.ID]++ }
func (t *Thread) Snapshot() []int { return append([]int(nil), t.vc...) }
func (t *Thread) Join(o []int) {
	for i := range o {
		if i < len(t.vc) && o[i] > t.vc[i] {
			t.vc[i] = o[i]
		}
	}
}

// YieldFilter, when set, decides per probe site whether an instrumented access is
// a scheduling point (the race check always runs). A scenario uses it to drop
// scheduling points on objects it knows to be thread-local.
var YieldFilter func(desc string) bool

// Access is a scheduling point plus a happens-before race check on one location.
func Access(p unsafe.Pointer, write bool, desc string) {
	if cur == nil {
		return
	}
	if YieldFilter == nil || YieldFilter(desc) {
		Yield(desc)
	}
	s, t := cur, cur.running
	loc := s.shadow[uintptr(p)]
	if loc == nil {
		loc = &shadowLoc{reads: map[int]acc{}, keep: p}
		s.shadow[uintptr(p)] = loc
	}
	me := acc{t.ID, t.vc[t.ID], desc}
	if loc.w != nil && loc.w.tid != t.ID && loc.w.clk > t.vc[loc.w.tid] {
		kind := "read"
		if write {
			kind = "write"
		}
		s.Races = append(s.Races, fmt.Sprintf("%s %s || write %s", kind, desc, loc.w.desc))
	}
	if write {
		for _, r := range loc.reads {
			if r.tid != t.ID && r.clk > t.vc[r.tid] {
				s.Races = append(s.Races, fmt.Sprintf("write %s || read %s", desc, r.desc))
			}
		}
		loc.w = &me
		loc.reads = map[int]acc{}
	} else {
		loc.reads[t.ID] = me
	}
}

// Stats of one exploration.
type Stats struct {
	Execs     int
	Points    int
	MaxPoints int
	Capped    bool
	BoundDone int
}

// Explore: deviation-bounded DFS over schedules; mk builds fresh thread bodies
// for every execution, check judges each finished execution. maxExecs caps the
// exploration (Capped is then set).
func Explore(bound, maxPoints, maxExecs int, mk func() []func(), check func(*Sched)) Stats {
	var st Stats
	var rec func(prefix []int)
	rec = func(prefix []int) {
		if maxExecs > 0 && st.Execs >= maxExecs {
			st.Capped = true
			return
		}
		x := Run(prefix, maxPoints, mk()...)
		st.Execs++
		st.Points += len(x.Points)
		if len(x.Points) > st.MaxPoints {
			st.MaxPoints = len(x.Points)
		}
		check(x)
		// Deviation bounding: the default at every point is choice 0 (keep running
		// the current thread; when it is blocked or finished, the lowest-numbered
		// enabled thread). Every other choice -- a preemption or a non-default pick
		// after a block -- costs one deviation. (Bounding only preemptions leaves
		// the picks after each blocking conn read free, which is exponential in the
		// number of reads.)
		pre := 0
		cost := make([]int, len(x.Points))
		for i, p := range x.Points {
			cost[i] = pre
			if p.Chosen != 0 {
				pre++
			}
		}
		for i := len(prefix); i < len(x.Points); i++ {
			p := x.Points[i]
			c := cost[i] + 1
			if c > bound {
				continue
			}
			for alt := 1; alt < len(p.Enabled); alt++ {
				np := make([]int, i+1)
				for k := 0; k < i; k++ {
					np[k] = x.Points[k].Chosen
				}
				np[i] = alt
				rec(np)
			}
		}
	}
	rec(nil)
	st.BoundDone = bound
	return st
}
